#!/usr/bin/env python3
"""Translator validation (Serval's practice): run the repository's own tests against the AST-rewritten,
stubbed modules with *concrete* strings flowing through SymDict / StringTrie / BaseModel stubs.

usage: .venv/bin/python selftest/run_repo_tests.py [pytest args]   (default: the tests that do not need rdflib/pandas/network)
A failure here is a stub or rewrite disagreement with the real stack, never a statement about curies.
"""
import sys
import types

sys.path.insert(0, "/verif")
from symcurie import core as sc, loader  # noqa: E402

eng = sc.Engine()
sc.Engine.current = eng
eng.pc, eng.trail, eng.pos, eng.model, eng.subst, eng.memo, eng.cf_apps, eng.decided, eng.keep = [], [], 0, None, [], {}, [], {}, []
eng.known_seen, eng.inputs, eng.frontier_depth = set(), {}, None

mods = {n: loader.load(n) for n in ("api", "reconciliation", "w3c", "discovery", "sources", "version")}
facade = types.ModuleType("curies")
for m in mods.values():
    for k, v in vars(m).items():
        if not k.startswith("__"):
            setattr(facade, k, v)
facade.__path__ = []
sys.modules["curies"] = facade
for n, m in mods.items():
    sys.modules[f"curies.{n}"] = m
    setattr(facade, n, m)

import pytest  # noqa: E402

args = sys.argv[1:] or ["/repo/tests/test_reconciliation.py", "/repo/tests/test_w3c.py", "/repo/tests/test_api.py", "/repo/tests/test_discovery.py",
                        "-k", "not bioregistry and not github and not go_registry and not monarch and not obo and not remote and not rdflib "
                              "and not df_ and not file_bulk and not load_path and not shacl and not pydantic and not Types and not reference_constructor"]
sys.exit(pytest.main(["-q", "-p", "no:cacheprovider", *args]))
