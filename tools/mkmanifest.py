#!/usr/bin/env python3
"""Regenerate /verif/MANIFEST.json from the harness modules that exist."""
import importlib
import json
import sys
from pathlib import Path

ROOT = Path(__file__).resolve().parent.parent
sys.path.insert(0, str(ROOT))
PROPS = [f"C{n:02d}" for n in range(1, 21)]
NA_FILE = ROOT / "tools" / "not_applicable.json"

checks, na = [], []
na_reasons = json.loads(NA_FILE.read_text()) if NA_FILE.exists() else {}
for pid in PROPS:
    if pid in na_reasons:
        na.append(dict(property_id=pid, reason=na_reasons[pid]))
        continue
    try:
        hm = importlib.import_module(f"symcurie.harness.{pid.lower()}")
    except ModuleNotFoundError:
        na.append(dict(property_id=pid, reason="check not built yet (work in progress; see DESIGN.md section 5 for the plan)"))
        continue
    checks.append(dict(
        property_id=pid,
        quick_cmd=f"./sx check {pid} --tier quick",
        thorough_cmd=f"./sx check {pid} --tier thorough",
        evidence_file=f"evidence/{pid}.json",
        replay_cmd_template="./sx replay {path}",
        engine="symcurie",
        level_claimed=dict(
            category="other",
            text=getattr(hm, "LEVEL_TEXT", "Bounded symbolic execution of the real curies source, SMT-decided per path: the "
                         "property holds for every string value within the stated bounds and nothing is claimed outside them. "
                         "Bounds: " + "; ".join(f"{k}: {v}" for k, v in hm.BOUNDS.items()) + ". Outside the claim: " +
                         "; ".join(hm.OUTSIDE) + ". A counterexample is reported only after it was replayed on the real stack; "
                         "solver unknowns, unmodelled constructs and budget overruns are INCONCLUSIVE (exit 2), never a pass."),
            design_ref=f"DESIGN.md section 5, {pid}"),
        level_note="Trusted base: z3 5.1.0 / cvc5 1.0.3, the AST rewrite and proxy classes (validated each run by replaying "
                   "path witnesses on the real stack), and the contract stubs named in the evidence (" +
                   "; ".join(hm.ASSUMPTIONS)[:600] + ")",
        technique="bounded symbolic execution of the repository source with z3/cvc5 deciding every branch and obligation; "
                  "counterexamples replayed on the real code"))
manifest = dict(
    version=1,
    setup_cmd="./setup.sh",
    hooks=dict(guard="CURIES_VERIF", enable="no hooks: the checks only read /repo/src (no instrumentation in the repository)",
               baseline_off_cmd="cd /repo && /venv/bin/python -m pytest -ra -q -p no:cacheprovider --timeout=900 "
                                "--continue-on-collection-errors", source_commits=[], add_only=True),
    engines=[dict(name="symcurie", path="symcurie/", serves_properties=[c["property_id"] for c in checks],
                  kind_free_text="symbolic executor for Python source: AST rewrite + proxy values over z3 String/Int/Bool, "
                                 "DFS path enumeration by re-execution, z3 5.1.0 primary, cvc5 1.0.3 fallback")],
    checks=checks,
    notes="Exit codes: 0 holds within bounds, 1 VIOLATION (reproduced on the real stack), 2 INCONCLUSIVE (never a pass). "
          "See DESIGN.md.",
    not_applicable=na)
(ROOT / "MANIFEST.json").write_text(json.dumps(manifest, indent=1) + "\n")
print("checks:", [c["property_id"] for c in checks], "n/a:", [x["property_id"] for x in na])
