#!/usr/bin/env python3
"""Confirm a seeded change independently and run the checks against it.

usage: tools/seed_eval.py <seed dir with patch.diff, demo.py> <seed name> <property id> [--tier quick] [--also C02,C03]
 1. fresh scratch worktree of /repo HEAD under /tmp: demo must exit 0; apply patch; stable tests 114/114; demo must exit != 0
 2. apply the patch to /repo itself, run the check(s) of /verif, restore /repo
 3. write /verif/seeded/<name>/{patch.diff,demo.py,notes.md,meta.json}
"""
import argparse, json, os, shutil, subprocess, sys, time

ap = argparse.ArgumentParser()
ap.add_argument("src"); ap.add_argument("name"); ap.add_argument("prop")
ap.add_argument("--tier", default="quick"); ap.add_argument("--also", default="")
a = ap.parse_args()

def sh(cmd, **kw):
    return subprocess.run(cmd, shell=True, capture_output=True, text=True, **kw)

wt = f"/tmp/verify-{a.name}"
sh(f"git -C /repo worktree remove --force {wt}")
assert sh(f"git -C /repo worktree add -q --detach {wt} HEAD").returncode == 0
meta = dict(name=a.name, property=a.prop, confirmed={}, checks={})
try:
    env = f"PYTHONPATH={wt}/src"
    r0 = sh(f"cd /tmp && {env} /venv/bin/python {a.src}/demo.py")
    meta["confirmed"]["demo_on_pristine_exit"] = r0.returncode
    ap_ = sh(f"git -C {wt} apply {a.src}/patch.diff")
    meta["confirmed"]["patch_applies"] = ap_.returncode == 0
    t = sh(f"/verif/tools/run_tests.py {wt}")
    meta["confirmed"]["stable_tests"] = t.stdout.strip().splitlines()[-1] if t.stdout.strip() else t.stderr[-300:]
    meta["confirmed"]["tests_ok"] = t.returncode == 0
    r1 = sh(f"cd /tmp && {env} /venv/bin/python {a.src}/demo.py")
    meta["confirmed"]["demo_with_change_exit"] = r1.returncode
    meta["confirmed"]["demo_output"] = (r1.stdout + r1.stderr)[-600:]
finally:
    sh(f"git -C /repo worktree remove --force {wt}")
ok = meta["confirmed"].get("patch_applies") and meta["confirmed"].get("tests_ok") and meta["confirmed"]["demo_on_pristine_exit"] == 0 \
    and meta["confirmed"].get("demo_with_change_exit", 0) != 0
meta["kept"] = bool(ok)
print(json.dumps(meta["confirmed"], indent=1)[:1500])
if ok:
    assert sh("git -C /repo status --porcelain").stdout.strip() == "", "/repo dirty"
    assert sh(f"git -C /repo apply {a.src}/patch.diff").returncode == 0
    # the evidence directory must keep describing the unchanged tree: put it aside while the mutant is checked
    import tempfile
    keep = tempfile.mkdtemp(prefix="evidence-keep-")
    sh(f"cp -a /verif/evidence/. {keep}/")
    try:
        for p in [a.prop] + [x for x in a.also.split(",") if x]:
            t0 = time.time()
            r = sh(f"cd /verif && ./sx check {p} --tier {a.tier}", timeout=7200)
            lines = [l[:400] for l in r.stdout.splitlines() if l.startswith(("VIOLATION", "INCONCLUSIVE", "KNOWN", p + " "))]
            meta["checks"][p] = dict(tier=a.tier, exit=r.returncode, wall_s=round(time.time() - t0, 1), output=lines[:6])
            print(p, "exit", r.returncode, round(time.time() - t0, 1), "s"); print("\n".join(lines[:4]))
            # keep the replay file of the first violation as part of the record
            if r.returncode == 1:
                for l in lines:
                    if l.startswith("VIOLATION"):
                        rp = l.split("replay=")[1].strip()
                        meta["checks"][p]["replay"] = json.load(open(rp))
                        break
    finally:
        sh("git -C /repo checkout -- . && git -C /repo clean -fdq src")
        sh(f"rm -rf /verif/evidence && mkdir /verif/evidence && cp -a {keep}/. /verif/evidence/ && rm -rf {keep}")
    assert sh("git -C /repo status --porcelain").stdout.strip() == ""
dst = f"/verif/seeded/{a.name}"
os.makedirs(dst, exist_ok=True)
for f in ("patch.diff", "demo.py", "notes.md"):
    if os.path.exists(f"{a.src}/{f}"):
        shutil.copy(f"{a.src}/{f}", f"{dst}/{f}")
import re as _re
_notes = open(f"{a.src}/notes.md").read() if os.path.exists(f"{a.src}/notes.md") else ""
_s = _re.split(r'(?<=[.!?])\s+', " ".join(_notes.split()))
meta["breaks_property"] = a.prop
meta["needs_to_manifest"] = " ".join([x for x in _s if _re.search(r"manifest|only (shows|when|if|with|after)|needs|requires|trigger", x, _re.I)][:4])[:900] or _notes[:600]
meta["what_i_ran"] = [f"fresh worktree of /repo HEAD: demo.py (expect exit 0), git apply patch.diff, /verif/tools/run_tests.py (114 stable tests), demo.py (expect exit 1)",
                      f"git -C /repo apply patch.diff; ./sx check {a.prop} --tier {a.tier}; git -C /repo checkout -- ."]
json.dump(meta, open(f"{dst}/meta.json", "w"), indent=1)
print("kept" if ok else "NOT CONFIRMED", "->", dst)
