#!/usr/bin/env python3
import json, sys, glob
import jsonschema
m = json.load(open('/verif/MANIFEST.json')); jsonschema.validate(m, json.load(open('/root/.vp/MANIFEST.schema.json'))); print("manifest valid")
es = json.load(open('/root/.vp/EVIDENCE.schema.json'))
for f in sorted(glob.glob('/verif/evidence/C*.json')):
    jsonschema.validate(json.load(open(f)), es); print(f, "valid")
