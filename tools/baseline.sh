#!/bin/sh
# Run the repository's pinned test suite and compare with BASELINE.json's stable_pass list.
cd /repo && /venv/bin/python -m pytest -q -p no:cacheprovider --timeout=900 --continue-on-collection-errors --junitxml=/tmp/_baseline.xml >/dev/null 2>&1
/venv/bin/python - <<'PY'
import json, xml.etree.ElementTree as ET
b = json.load(open('/root/.vp/BASELINE.json'))
t = ET.parse('/tmp/_baseline.xml')
passed = set()
for tc in t.iter('testcase'):
    if not any(c.tag in ('failure', 'error', 'skipped') for c in tc):
        passed.add(f"{tc.get('classname')}::{tc.get('name')}")
missing = [x for x in b['stable_pass'] if x not in passed]
print(f"baseline: {len(b['stable_pass']) - len(missing)}/{len(b['stable_pass'])} stable tests pass; missing: {missing}")
raise SystemExit(1 if missing else 0)
PY
