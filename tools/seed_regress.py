#!/usr/bin/env python3
"""Re-run the recorded checks against every kept seeded change (after the machinery changed) and refresh meta.json.

usage: tools/seed_regress.py [name-glob ...]      e.g.  tools/seed_regress.py 'C0?-[a-d]'
For each seed: git -C /repo apply patch.diff; ./sx check <prop> --tier <tier recorded>; git -C /repo checkout -- .
The evidence directory is put aside meanwhile (it must keep describing the unchanged tree).
"""
import fnmatch, glob, json, os, subprocess, sys, tempfile, time

ROOT = os.path.dirname(os.path.dirname(os.path.abspath(__file__)))
pats = sys.argv[1:] or ["*"]


def sh(cmd, **kw):
    return subprocess.run(cmd, shell=True, capture_output=True, text=True, **kw)


assert sh("git -C /repo status --porcelain").stdout.strip() == "", "/repo dirty"
keep = tempfile.mkdtemp(prefix="evidence-keep-")
sh(f"cp -a {ROOT}/evidence/. {keep}/")
summary = {}
try:
    for d in sorted(glob.glob(f"{ROOT}/seeded/C*")):
        name = os.path.basename(d)
        if not any(fnmatch.fnmatch(name, p) for p in pats):
            continue
        meta = json.load(open(f"{d}/meta.json"))
        if not meta.get("kept"):
            continue
        assert sh(f"git -C /repo apply {d}/patch.diff").returncode == 0, name
        try:
            for p, c in meta["checks"].items():
                t0 = time.time()
                r = sh(f"cd {ROOT} && ./sx check {p} --tier {c['tier']}", timeout=7200)
                lines = [l[:400] for l in r.stdout.splitlines() if l.startswith(("VIOLATION", "INCONCLUSIVE", "KNOWN", p + " "))]
                new = dict(tier=c["tier"], exit=r.returncode, wall_s=round(time.time() - t0, 1), output=lines[:6])
                if r.returncode == 1:
                    for l in lines:
                        if l.startswith("VIOLATION"):
                            new["replay"] = json.load(open(l.split("replay=")[1].strip()))
                            break
                meta["checks"][p] = new
                summary[f"{name}/{p}"] = (c.get("exit"), r.returncode, new["wall_s"])
                print(name, p, "was", c.get("exit"), "now", r.returncode, new["wall_s"], "s", flush=True)
        finally:
            sh("git -C /repo checkout -- . && git -C /repo clean -fdq src")
        json.dump(meta, open(f"{d}/meta.json", "w"), indent=1)
finally:
    sh(f"rm -rf {ROOT}/evidence && mkdir {ROOT}/evidence && cp -a {keep}/. {ROOT}/evidence/ && rm -rf {keep}")
    assert sh("git -C /repo status --porcelain").stdout.strip() == ""
bad = {k: v for k, v in summary.items() if v[0] == 1 and v[1] != 1}
print("changed for the worse:", bad)
