#!/usr/bin/env python3
"""Run the 114 pinned (stable) tests of /root/.vp/BASELINE.json in a worktree: tools/run_tests.py <worktree>; exit 0 iff all pass."""
import json, os, subprocess, sys, tempfile
import xml.etree.ElementTree as ET
wt = sys.argv[1]
stable = set(json.load(open("/root/.vp/BASELINE.json"))["stable_pass"])
fd, jx = tempfile.mkstemp(suffix=".xml"); os.close(fd)
subprocess.run(f"cd {wt} && PYTHONPATH={wt}/src /venv/bin/python -m pytest -q -p no:cacheprovider --timeout=900 --continue-on-collection-errors --junitxml={jx}",
               shell=True, capture_output=True, text=True)
passed = set()
for tc in ET.parse(jx).getroot().iter("testcase"):
    if not any(c.tag in ("failure", "error", "skipped") for c in tc):
        passed.add(f"{tc.get('classname')}::{tc.get('name')}")
os.unlink(jx)
failing = sorted(stable - passed)
print(f"stable tests passing: {len(stable & passed)}/{len(stable)}; failing stable tests: {failing[:10]}")
sys.exit(0 if not failing else 1)
