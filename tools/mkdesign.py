#!/usr/bin/env python3
"""Assemble /verif/DESIGN.md from the hand-written parts under docs/ and from what the harness modules,
the evidence files and the seeded-change records say (so that bounds and costs in the document are the ones
the checks really use)."""
import glob, importlib, json, os, subprocess, sys
ROOT = os.path.dirname(os.path.dirname(os.path.abspath(__file__)))
sys.path.insert(0, ROOT)
PROPS = [f"C{n:02d}" for n in range(1, 21)]
titles = {json.loads(l)["id"]: json.loads(l)["title"] for l in open(f"{ROOT}/properties.jsonl")}
out = [open(f"{ROOT}/docs/DESIGN.head.md").read().rstrip() + "\n"]

# ---- section 3: tiers and measured cost
out.append("""## 3. Tiers, cost, parallelism (measured on this machine, 16 cores)

A check is `./sx check <id> --tier quick|thorough` (`VERIF_TIER` overrides the flag, `VERIF_SEED` seeds z3's
`random_seed` rotation; verdicts do not depend on it). Every (harness function, shape) pair is a job; jobs with a
`shard_depth` are first explored to that decision depth and each frontier prefix becomes its own job in the
16-process pool. A job that runs out of its budget, meets a solver `unknown`, an unmodelled construct or an
unwinding bound makes the check INCONCLUSIVE (exit 2) - never a pass. The quick tier is sized at about three minutes
per property or less, the thorough tier at up to about half an hour.

The numbers below are read from the evidence files of the last run of each tier on the unchanged tree
(`paths` = feasible execution paths explored, `oblig.` = obligations submitted / discharged, `real` = path
witnesses replayed on the real stack, `solver` = summed solver seconds over all worker processes).

| property | tier | jobs | paths | oblig. | queries | real | solver s | wall s |
|---|---|---|---|---|---|---|---|---|
""")
rows = []
for tier, pat in (("quick", f"{ROOT}/evidence/C*.json"), ("thorough", f"{ROOT}/evidence/thorough/C*.json")):
    for f in sorted(glob.glob(pat)):
        e = json.load(open(f)); c = e["coverage"]
        rows.append(f"| {e['property_id']} | {e['tier']} | {sum(s['shards'] for s in c['shapes'])} | {c['evaluations']} | {c['obligations']}/{c['discharged']} | "
                    f"{c['queries']} | {c['traces_validated_against_impl']} | {c['solver_s']} | {e['wall_s']} |")
out.append("\n".join(rows) + "\n")
out.append(open(f"{ROOT}/docs/DESIGN.findings.md").read().rstrip() + "\n")

# ---- section 5: per property, from the harness modules
out.append("""## 5. The checks per property (generated from the harness modules)

Notation: a converter *shape* is a list of `[ps, us]` = number of CURIE-prefix synonyms and URI-prefix synonyms per
record; `symdelim` = the delimiter is an arbitrary non-empty symbolic string instead of `:`. "Strict precondition" =
all CURIE prefixes and synonyms pairwise distinct and all URI prefixes and synonyms pairwise distinct, which is
exactly what a strict converter guarantees (C04 decides that separately). Unless a bound says otherwise strings are
z3 strings of unbounded length over z3's whole alphabet. The thorough tier runs the quick jobs plus the ones listed.
""")
for pid in PROPS:
    hm = importlib.import_module(f"symcurie.harness.{pid.lower()}")
    q = hm.jobs("quick"); t = [j for j in hm.jobs("thorough") if j["name"] not in {x["name"] for x in q}]
    out.append(f"### {pid} - {titles[pid]}\n")
    out.append(f"* **Encoded and decided how:** {hm.EXPLANATION}")
    out.append("* **Bounds:** " + "; ".join(f"{k}: {v}" for k, v in hm.BOUNDS.items()))
    out.append("* **Outside the claim:** " + "; ".join(hm.OUTSIDE))
    out.append("* **Assumptions / trusted stubs:** " + "; ".join(hm.ASSUMPTIONS))
    out.append(f"* **Quick jobs ({len(q)}):** " + ", ".join(f"`{j['name']}`" for j in q))
    if t:
        out.append(f"* **Additional thorough jobs ({len(t)}):** " + ", ".join(f"`{j['name']}`" for j in t))
    out.append("")
out.append(open(f"{ROOT}/docs/DESIGN.asbuilt.md").read().rstrip() + "\n")
# ---- section 11: seeded changes
tab = subprocess.run([sys.executable, f"{ROOT}/tools/seed_table.py"], capture_output=True, text=True).stdout
out.append("""## 7. Seeded changes: which checks catch which changes

Each change below was written by a fresh sub-agent that was given only the text of one property and its own scratch
worktree of `/repo` (nothing from `/verif`), asked for a plausible regression that breaks the property while the
114-test baseline keeps passing, with a demonstration program. A change is kept only after I confirmed in a fresh
scratch worktree that the patch applies, the baseline passes, the demonstration exits 0 without and non-zero with the
change (`tools/seed_eval.py`, recorded in `seeded/<name>/meta.json`). The check is then run against `/repo` with the
patch applied (`git -C /repo apply`) and `/repo` is restored straight afterwards. Six full rounds (`-a` .. `-f`, 120 changes) and a partial seventh (`-g`, 8 properties: C01, C05, C07, C09, C12, C13, C16, C18) were run; later rounds were told to differ from the earlier patches and to need longer histories, more records or rarer
flags, and the fifth round was told outright to aim at what a checker exploring small configurations overlooks (rarely
used keyword arguments, other overloads and input kinds, size thresholds, stale state after an interleaving), the sixth
at state and aliasing (second calls, caches, arguments the caller still owns); the seventh asked for mechanisms other than the obvious ones (7 of 8 reported at first run, C16-g after the 'warm' bulk-history jobs). "first run" says what happened when the change first met the checks as they were then; every miss led to a
strengthening of the check (bounds, fixtures, stubs or engine), after which the *quick* tier reports the change with a
counterexample replayed on the real stack.

""" + tab)
out.append(open(f"{ROOT}/docs/DESIGN.limits.md").read().rstrip() + "\n")
open(f"{ROOT}/DESIGN.md", "w").write("\n".join(out))
print("DESIGN.md written:", sum(len(x) for x in out), "bytes")
