#!/usr/bin/env python3
"""Print the markdown table of seeded changes (DESIGN.md section 7) from seeded/*/meta.json."""
import glob, json, os
hist = json.load(open("/verif/seeded/HISTORY.json"))["first_run"]
print("| seed | breaks | what the change is (from the author's notes) | final result of the property's quick check | first run |")
print("|---|---|---|---|---|")
for d in sorted(glob.glob("/verif/seeded/C*-*")):
    m = json.load(open(f"{d}/meta.json"))
    notes = open(f"{d}/notes.md").read() if os.path.exists(f"{d}/notes.md") else ""
    first = " ".join(l.strip("-# *") for l in notes.splitlines() if l.strip())[:230].replace("|", "/")
    res = []
    for p, c in m.get("checks", {}).items():
        res.append(f"{p}: exit {c['exit']} ({'VIOLATION, replayed on the real stack' if c['exit']==1 else 'no alarm' if c['exit']==0 else 'INCONCLUSIVE'}) in {c['wall_s']} s")
    print(f"| {m['name']} | {m['property']} | {first} | {'; '.join(res)} | {hist.get(m['name'], '')} |")
