#!/bin/sh
# usage: tools/tryseed.sh <dir with patch.diff> <property id> [tier] [more property ids...]
# Applies the patch to /repo, runs the check(s), and restores /repo straight afterwards.
D="$1"; shift
TIER="${TIER:-quick}"
cd /repo || exit 2
if [ -n "$(git status --porcelain)" ]; then echo "/repo is dirty, refusing"; exit 2; fi
git apply "$D/patch.diff" || { echo "patch does not apply"; exit 2; }
trap 'git -C /repo checkout -- . ; git -C /repo clean -fdq src' EXIT
for P in "$@"; do
  ( cd /verif && timeout 3600 ./sx check "$P" --tier "$TIER" 2>&1 | grep -E "^(VIOLATION|INCONCLUSIVE|KNOWN|C[0-9]+ )" | cut -c1-400 | head -8 )
  echo "exit($P)=$?"
done
