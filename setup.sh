#!/bin/sh
# Build the verification interpreter offline: a venv layered over /venv (the repository's own
# environment: pydantic, pytrie, flask, starlette, rdflib ...) plus z3-solver from the wheelhouse.
set -e
cd "$(dirname "$0")"
V=.venv
if [ ! -x "$V/bin/python" ] || ! "$V/bin/python" -c "import z3, pydantic, pytrie" >/dev/null 2>&1; then
  rm -rf "$V"
  /venv/bin/python -m venv "$V"
  SP=$("$V/bin/python" -c "import sysconfig; print(sysconfig.get_paths()['purelib'])")
  printf "import site; site.addsitedir('/venv/lib/python3.12/site-packages')\n" > "$SP/_overlay.pth"
  PIP_NO_INDEX=1 "$V/bin/python" -m pip install -q --no-index --find-links /opt/veriftools/wheels z3-solver
fi
"$V/bin/python" -c "import z3, pydantic, pytrie; print('symcurie venv ok, z3', z3.get_version_string())"
