"""symcurie core: z3-backed proxy values and depth-first path exploration by re-execution.

The code under test is the *real* curies source (see loader.py); strings, ints and booleans that
flow through it may be z3 terms wrapped in the proxy classes below.  Every data-dependent branch
(`bool(SymBool)`) becomes a solver query; Engine.explore enumerates all feasible paths.

Nothing in this file knows anything about curies.
"""
from __future__ import annotations

import itertools
import os
import re as _re
import subprocess
import sys
import tempfile
import time

import z3


class EngineAbort(BaseException):
    """Control flow: abandon this path (infeasible assumption)."""


class Frontier(BaseException):
    """Control flow: frontier depth reached while sharding."""


class Unsupported(BaseException):
    """The code did something the proxies do not model -> inconclusive, never a verdict."""


class Budget(BaseException):
    """Job ran out of its time / path budget -> inconclusive."""


class Truncated(BaseException):
    """An unwinding bound of the proxies was exceeded on this path (e.g. more separator occurrences than
    split() unrolls): the path is abandoned and counted; without a violation elsewhere the job is inconclusive."""


RE_SORT = z3.ReSort(z3.StringSort())
ANYCHAR = z3.AllChar(RE_SORT)
ANYSTR = z3.Full(RE_SORT)
SURROGATE = z3.Range(chr(0xD800), chr(0xDFFF))
HAS_SURROGATE = z3.Concat(ANYSTR, SURROGATE, ANYSTR)
PRINTABLE = z3.Star(z3.Range(" ", "~"))
ALNUMISH = z3.Star(z3.Union(z3.Range("a", "z"), z3.Range("A", "Z"), z3.Range("0", "9"), z3.Re("/"), z3.Re(":"),
                            z3.Re("_"), z3.Re("#"), z3.Re("."), z3.Re("-"), z3.Re(" "), z3.Re(";"), z3.Re("="),
                            z3.Re(","), z3.Re("+"), z3.Re("*")))

_ESC = _re.compile(r"\\u\{([0-9a-fA-F]+)\}")


def z3str_to_py(v) -> str:
    return _ESC.sub(lambda m: chr(int(m.group(1), 16)), v.as_string())


CVC5 = os.environ.get("SYMCURIE_CVC5", "cvc5")


def free_vars(exprs):
    """Uninterpreted constants occurring in the given z3 expressions."""
    seen, out, stack = set(), {}, list(exprs)
    while stack:
        e = stack.pop()
        i = e.get_id()
        if i in seen:
            continue
        seen.add(i)
        if z3.is_const(e):
            if e.decl().kind() == z3.Z3_OP_UNINTERPRETED:
                out[e.decl().name()] = e
        else:
            stack.extend(e.children())
    return out


class Z3Model:
    def __init__(self, m):
        self.m = m

    def says(self, cond):
        try:
            v = z3.simplify(self.m.eval(cond, model_completion=True))
        except z3.Z3Exception:
            return None
        return True if z3.is_true(v) else False if z3.is_false(v) else None

    def value(self, var):
        return self.m.eval(var, model_completion=True)


def _default_value(sort):
    if sort == z3.StringSort():
        return z3.StringVal("")
    if sort == z3.IntSort():
        return z3.IntVal(0)
    if sort == z3.BoolSort():
        return z3.BoolVal(False)
    return None


class ValModel:
    """A model given as constant values for variables (obtained from cvc5's get-value)."""

    def __init__(self, vals):
        self.vals = vals   # name -> z3 value term

    def says(self, cond):
        subs = []
        for name, var in free_vars([cond]).items():
            v = self.vals.get(name)
            if v is None:
                v = _default_value(var.sort())
                if v is None:
                    return None
            subs.append((var, v))
        try:
            r = z3.simplify(z3.substitute(cond, *subs)) if subs else z3.simplify(cond)
        except z3.Z3Exception:
            return None
        return True if z3.is_true(r) else False if z3.is_false(r) else None

    def value(self, var):
        v = self.vals.get(var.decl().name())
        return v if v is not None else _default_value(var.sort())


_TOK = _re.compile(r'"(?:[^"]|"")*"|[()]|[^\s()"]+')


def parse_get_value(text, vars_by_name):
    """Parse cvc5's `((x "abc") (n 5) (b true) (m (- 3)))` into name -> z3 value."""
    toks = _TOK.findall(text)
    vals, i = {}, 0

    def read(i):
        if toks[i] == "(":
            items, i = [], i + 1
            while toks[i] != ")":
                it, i = read(i)
                items.append(it)
            return items, i + 1
        return toks[i], i + 1
    while i < len(toks):
        tree, i = read(i)
        for pair in tree if isinstance(tree, list) else []:
            if not (isinstance(pair, list) and len(pair) == 2 and isinstance(pair[0], str)):
                continue
            name, val = pair
            name = name[1:-1] if name.startswith("|") else name
            var = vars_by_name.get(name)
            if var is None:
                continue
            srt = var.sort()
            if srt == z3.StringSort() and isinstance(val, str) and val.startswith('"'):
                body = val[1:-1].replace('""', '"')
                vals[name] = z3.StringVal(_ESC.sub(lambda m: chr(int(m.group(1), 16)), body))
            elif srt == z3.IntSort():
                if isinstance(val, list) and len(val) == 2 and val[0] == "-":
                    vals[name] = z3.IntVal(-int(val[1]))
                elif isinstance(val, str) and val.lstrip("-").isdigit():
                    vals[name] = z3.IntVal(int(val))
            elif srt == z3.BoolSort() and val in ("true", "false"):
                vals[name] = z3.BoolVal(val == "true")
    return vals


class Engine:
    """Symbolic engine: DFS over branch decisions by re-execution with a decision trail."""

    current: "Engine | ConcEngine | None" = None
    symbolic = True

    def __init__(self, timeout_ms=20000, max_paths=1_000_000, deadline=None, seed=0, known_active=()):
        self.timeout_ms = timeout_ms
        self.fast_ms = 1500
        self.max_paths = max_paths
        self.deadline = deadline
        self.seed = seed
        self.known_active = set(known_active)
        self.stats = dict(paths=0, queries=0, solver_s=0.0, unknown=0, pruned=0, model_hits=0, cvc5=0, retries=0,
                          obligations=0, discharged=0)
        self.fresh = itertools.count()
        self.numerals = ()
        self.cex = []
        self.outcomes = {}
        self.frontier = []
        self.path_log = []      # (outcome, trail decisions, pc) for sampled differential replay
        self.keep_paths = 0
        self.cvc5_streak = 0
        self.prefer_cvc5 = False

    # ---------------------------------------------------------------- solver portfolio
    def _solve(self, assertions, want_model=True):
        """Return ("sat"|"unsat"|"unknown", model|None) for a list of assertions using the portfolio."""
        self.stats["queries"] += 1
        if self.deadline is not None and time.time() > self.deadline:
            raise Budget("job deadline exceeded")
        t0 = time.time()
        r, m = "unknown", None
        plan = [(self.seed, self.fast_ms), ("cvc5", 10), (self.seed + 1, self.fast_ms * 4),
                (self.seed + 2, self.timeout_ms), ("cvc5", 40), (self.seed + 3, self.timeout_ms)]
        if getattr(self, "light", False):
            # witnesses for the differential validation are optional: a cheap attempt, or none
            plan = [(self.seed, self.fast_ms * 2), ("cvc5", 5)]
        if self.cvc5_streak >= 2 or self.prefer_cvc5:
            # z3's quick attempt keeps failing where cvc5 answers at once: ask cvc5 first for a while
            plan = [("cvc5", 5)] + plan
        for k, (seed, to) in enumerate(plan):
            if seed == "cvc5":
                out, vals = self._cvc5(assertions, to, True)
                self.stats["cvc5"] += 1
                if out == "sat" and vals is not None:
                    # never trust a cvc5 model blindly: every assertion must evaluate to true (or be undecidable by
                    # evaluation, e.g. because of an uninterpreted function) under it
                    vm = ValModel(vals)
                    if any(vm.says(a) is False for a in assertions):
                        self.stats["cvc5_bad_model"] = self.stats.get("cvc5_bad_model", 0) + 1
                        out, vals = "unknown", None
                elif out == "sat":
                    out = "unknown"     # sat without a usable model is not used
                if out == "unsat":
                    r, m = "unsat", None
                    self.cvc5_streak += 1
                    break
                if out == "sat":
                    r, m = "sat", (ValModel(vals) if vals is not None else None)
                    self.stats["cvc5_sat"] = self.stats.get("cvc5_sat", 0) + 1
                    self.cvc5_streak += 1
                    break
                self.cvc5_streak = 0
                continue
            s = z3.Solver()
            s.set("timeout", to)
            s.set("random_seed", seed)
            s.add(*assertions)
            res = s.check()
            if k:
                self.stats["retries"] += 1
            if res == z3.sat:
                r, m = "sat", Z3Model(s.model())
            elif res == z3.unsat:
                r, m = "unsat", None
            if r != "unknown":
                if k == 0 and seed != "cvc5":
                    self.cvc5_streak = 0
                break
        dt = time.time() - t0
        self.stats["solver_s"] += dt
        if r == "unknown":
            self.stats["unknown"] += 1
        if dt > 1.0 and os.environ.get("SYMCURIE_SLOW"):     # diagnosis only
            print(f"[slow query {dt:.1f}s -> {r}, {len(assertions)} assertions] last: {str(assertions[-1])[:400]}", file=sys.stderr, flush=True)
        return r, m

    @staticmethod
    def _cvc5(assertions, to_s, want_model=True):
        s2 = z3.Solver()
        s2.add(*assertions)
        fd, name = tempfile.mkstemp(suffix=".smt2", prefix="symcurie-")
        try:
            body = s2.to_smt2()
            vars_ = free_vars(assertions) if want_model else {}
            vars_ = {n: v for n, v in vars_.items() if v.sort() in (z3.StringSort(), z3.IntSort(), z3.BoolSort())}
            if vars_:
                names = " ".join(f"|{n}|" if not n.replace("_", "a").isalnum() else n for n in vars_)
                body += f"(get-value ({names}))\n"
            with os.fdopen(fd, "w") as f:
                f.write("(set-logic QF_SLIA)\n(set-option :produce-models true)\n" + body)
            try:
                p = subprocess.run([CVC5, "--strings-exp", f"--tlimit={int(to_s * 1000)}", name],
                                   capture_output=True, text=True, timeout=to_s + 5)
            except (OSError, subprocess.TimeoutExpired):
                return "unknown", None
            out = p.stdout.strip()
            first = out.split("\n", 1)[0].strip()
            if first == "unsat":
                return "unsat", None
            if first == "sat":
                rest = out.split("\n", 1)[1] if "\n" in out else ""
                if "(error" in rest or "(error" in p.stderr:
                    return "sat", None
                try:
                    vals = parse_get_value(rest, vars_) if vars_ else {}
                except Exception:  # noqa: BLE001 - unparsable model: keep the verdict, drop the model
                    return "sat", None
                return "sat", vals
            return "unknown", None
        finally:
            try:
                os.unlink(name)
            except OSError:
                pass

    def _check(self, *extra):
        return self._solve(list(self.pc) + list(extra))

    # ---------------------------------------------------------------- variables
    def var(self, name, sort="str"):
        self.inputs.setdefault(name, sort)
        if sort == "str":
            return SymStr(z3.String(name))
        if sort == "int":
            return SymInt(z3.Int(name))
        if sort == "bool":
            return SymBool(z3.Bool(name))
        raise ValueError(sort)

    def flag(self, name) -> bool:
        """A symbolic boolean input, branched on immediately."""
        return bool(self.var(name, "bool"))

    def choice(self, name, options):
        """A symbolic choice among concrete options (enumerated by branching)."""
        v = self.var(name, "int")
        self.assume(z3.And(v.e >= 0, v.e < len(options)))
        for i, o in enumerate(options[:-1]):
            if self.branch(v.e == i):
                return o
        return options[-1]

    def fresh_str(self, tag="t"):
        return z3.String(f"_{tag}{next(self.fresh)}")

    def mkdict(self, pairs=()):
        return SymDict(pairs)

    def mkset(self, items=()):
        return SymSet(items)

    def cf(self, x):
        """casefold in oracle formulas (registered, so that counterexamples define it at character level)"""
        t = _s(x)
        if not any((not isinstance(a, tuple)) and t.eq(a) for a in self.cf_apps):
            self.cf_apps.append(t)
        return CF(t)

    def norm(self, e):
        if self.subst:
            for _ in range(6):
                e2 = z3.substitute(e, *self.subst)
                if e2.eq(e):
                    break
                e = e2
        return z3.simplify(e)

    def define(self, *cons):
        self.pc.append(z3.And(*cons) if len(cons) != 1 else cons[0])
        self.model = None

    def _model_says(self, cond):
        if self.model is None:
            return None
        return self.model.says(cond)

    # ---------------------------------------------------------------- assumptions, branches, obligations
    def _record(self, cond, val):
        """Remember that `cond` has truth value `val` on this path (syntactic cache keyed by AST id)."""
        self.decided[cond.get_id()] = val
        self.keep.append(cond)
        if z3.is_not(cond):
            self._record(cond.arg(0), not val)
        elif val and z3.is_and(cond):
            for ch in cond.children():
                self._record(ch, True)
        elif not val and z3.is_or(cond):
            for ch in cond.children():
                self._record(ch, False)
        elif val and z3.is_distinct(cond):
            ch = cond.children()
            for i in range(len(ch)):
                for j in range(i + 1, len(ch)):
                    self._record(z3.simplify(ch[i] == ch[j]), False)

    def assume(self, cond):
        cond = self.norm(_b(cond))
        if z3.is_true(cond):
            return
        if self.decided.get(cond.get_id()) is True:
            return
        self.pc.append(cond)
        self._record(cond, True)
        if self._model_says(cond) is True:
            self.stats["model_hits"] += 1
            return
        r, m = self._check()
        if r != "sat":
            if r == "unknown":
                raise Unsupported("solver unknown on assume")
            raise EngineAbort()
        self.model = m

    def known(self, predicate_name, cond):
        """Exclude the region of a *listed, still reproducing* known finding from the claim."""
        self.known_seen.add(predicate_name)
        if predicate_name in self.known_active:
            self.assume(z3.Not(_b(cond)))

    def branch(self, cond) -> bool:
        cond = order_simplify(self.norm(cond))
        if z3.is_true(cond):
            return True
        if z3.is_false(cond):
            return False
        hit = self.decided.get(cond.get_id())
        if hit is None and z3.is_app(cond) and cond.decl().kind() in (z3.Z3_OP_STRING_LT, z3.Z3_OP_STRING_LE):
            hit = self._order_lemma(cond)
            if hit is not None:
                self.pc.append(cond if hit else z3.Not(cond))   # a consequence of the path condition (trichotomy)
                self._record(cond, hit)
        if hit is not None:
            self.stats["cache_hits"] = self.stats.get("cache_hits", 0) + 1
            return hit
        i = self.pos
        self.pos += 1
        if i < len(self.trail):
            dec = self.trail[i][0]
            if len(self.trail[i]) > 3:
                self.path_optimistic += 1
            if self.trail[i][2] is not None and i == len(self.trail) - 1:
                self.model = self.trail[i][2]
            elif self.model is not None and self._model_says(cond if dec else z3.Not(cond)) is not True:
                self.model = None   # a model obtained by an earlier assume() does not follow this replayed decision
        else:
            if self.frontier_depth is not None and i >= self.frontier_depth:
                raise Frontier()
            says = self._model_says(cond)
            reg = self._regular_decide(cond) if _is_regular_literal(cond) else None
            if reg is not None:
                # the regular lemma shows one side infeasible; the other is feasible because the path is
                m_ = self.model if says is reg else None
                rt, mt = ("sat", m_) if reg else ("unsat", None)
                rf, mf = ("unsat", None) if reg else ("sat", m_)
            elif says is None:
                rt, mt = self._check(cond)
                rf, mf = self._check(z3.Not(cond))
            elif says:
                self.stats["model_hits"] += 1
                rt, mt = "sat", self.model
                rf, mf = self._check(z3.Not(cond))
            else:
                self.stats["model_hits"] += 1
                rf, mf = "sat", self.model
                rt, mt = self._check(cond)
            opt = "unknown" in (rt, rf)
            if opt:
                # A comparison that neither solver decides (in practice: sorting / dict lookups over several symbolic
                # URI prefixes): follow every side that is not refuted, at most 8 times per path.  Exploring a possibly
                # infeasible path over-approximates the behaviours, so a HOLDS verdict stays sound; a counterexample
                # still needs a model that replays on the real code.
                self.path_optimistic += 1
                if self.path_optimistic > 8:
                    raise Unsupported(f"too many undecided branches on one path, last {str(cond)[:300]}")
                self.stats["optimistic_forks"] = self.stats.get("optimistic_forks", 0) + 1
                if rt == "unknown":
                    rt, mt = "sat", None
                if rf == "unknown":
                    rf, mf = "sat", None
            if rt == "sat" and rf == "sat":
                dec = True
                self.trail.append([True, True, mf])
                self.model = mt
            elif rt == "sat":
                dec = True
                self.trail.append([True, False, None])
                self.model = mt
            elif rf == "sat":
                dec = False
                self.trail.append([False, False, None])
                self.model = mf
            else:
                raise EngineAbort()
            if opt:
                self.trail[-1].append("undecided")
        self.pc.append(cond if dec else z3.Not(cond))
        self._record(cond, dec)
        return dec

    def check_holds(self, cond, label=""):
        """Obligation: under the current path condition `cond` must hold (negation unsat)."""
        cond = self.norm(_b(cond))
        self.stats["obligations"] += 1
        self.last_regular_witness = None
        # discharge conjuncts that the path already fixes (syntactic cache), that follow from the total order of
        # strings, or that the regular lemma proves; only the rest goes to the solver portfolio
        rest = []
        for c in (cond.children() if z3.is_and(cond) else [cond]):
            c = order_simplify(c)
            if z3.is_true(c) or self.decided.get(c.get_id()) is True:
                continue
            if z3.is_app(c) and c.decl().kind() in (z3.Z3_OP_STRING_LT, z3.Z3_OP_STRING_LE) and self._order_lemma(c) is True:
                continue
            if _is_membership(c) and self._regular(c):
                continue
            rest.append(c)
        if not rest:
            self.stats["discharged"] += 1
            return True
        cond = rest[0] if len(rest) == 1 else z3.And(*rest)
        neg = z3.Not(cond)
        if self._model_says(neg) is True and self._model_ok():
            r = "sat"
        else:
            r, _ = self._solve(list(self.pc) + [neg], want_model=False)
        if r == "unsat":
            self.stats["discharged"] += 1
            return True
        if r == "unknown":
            raise Unsupported(f"solver unknown on obligation {label}")
        hint = None
        w = getattr(self, "last_regular_witness", None)
        if w is not None and z3.is_const(w[0]) and w[0].decl().name() in self.inputs:
            hint = {w[0].decl().name(): w[1]}
        self.cex.append(dict(label=label, pc=list(self.pc), neg=neg, cf_apps=list(self.cf_apps), hint=hint))
        return False

    def _known(self, e):
        e = z3.simplify(e)
        if z3.is_true(e):
            return True
        if z3.is_false(e):
            return False
        return self.decided.get(e.get_id())

    def _order_lemma(self, cond):
        """String order is a strict total order: decide a < b / a <= b from what the path already fixed about
        b < a, b <= a and a == b (solvers lack this lemma and time out on it)."""
        a, b = cond.arg(0), cond.arg(1)
        strict = cond.decl().kind() == z3.Z3_OP_STRING_LT
        eq = self._known(a == b)
        if eq is None:
            eq = self._known(b == a)
        rev_lt, rev_le = self._known(b < a), self._known(b <= a)
        same_lt, same_le = self._known(a < b), self._known(a <= b)
        if strict:
            if eq is True or rev_lt is True or rev_le is True or same_le is False:
                return False
            if (rev_lt is False and eq is False) or rev_le is False or (same_le is True and eq is False):
                return True
        else:
            if eq is True or same_lt is True or rev_lt is False:
                return True
            if rev_lt is True or (rev_le is True and eq is False):
                return False
        # transitivity over the strict-order facts the path has fixed so far
        edges = {}
        for c in self.keep:
            v = self.decided.get(c.get_id())
            if v is None or not z3.is_app(c) or c.decl().kind() not in (z3.Z3_OP_STRING_LT, z3.Z3_OP_STRING_LE):
                continue
            x, y = c.arg(0), c.arg(1)
            lt = c.decl().kind() == z3.Z3_OP_STRING_LT
            if lt and v:
                edges.setdefault(x.get_id(), set()).add(y.get_id())
            elif (not lt) and (not v):          # not (x <= y)  =>  y < x
                edges.setdefault(y.get_id(), set()).add(x.get_id())
            elif lt and not v:                  # not (x < y) and x != y  =>  y < x
                e2 = self._known(x == y)
                if e2 is None:
                    e2 = self._known(y == x)
                if e2 is False:
                    edges.setdefault(y.get_id(), set()).add(x.get_id())

        def reach(src, dst):
            seen, stack = set(), [src]
            while stack:
                n = stack.pop()
                if n == dst:
                    return True
                if n in seen:
                    continue
                seen.add(n)
                stack.extend(edges.get(n, ()))
            return False
        if a.get_id() != b.get_id():
            if reach(a.get_id(), b.get_id()):
                return True         # a < b (hence also a <= b)
            if reach(b.get_id(), a.get_id()):
                return False        # b < a
        return None

    def _regular_decide(self, cond):
        from .regular import decide_literal
        return decide_literal(self, cond)

    def _regular(self, cond):
        from .regular import prove_membership
        return prove_membership(self, cond)

    def _model_ok(self):
        """The carried model really satisfies the whole path condition (evaluation only)."""
        for c in self.pc:
            if self.model.says(c) is not True:
                self.model = None
                return False
        return True

    def fail(self, label):
        """Obligation stated in Python over proxies failed on this (feasible) path."""
        self.stats["obligations"] += 1
        if not (self.model is not None and self._model_ok()):
            r, m = self._check()
            if r == "unsat":
                raise Unsupported("engine inconsistency: infeasible path reached an obligation")
            if r == "unknown":
                raise Unsupported("solver unknown while confirming the feasibility of a failing path")
            self.model = m
        self.cex.append(dict(label=label, pc=list(self.pc), neg=None, cf_apps=list(self.cf_apps)))

    def ok(self, n=1):
        """Count python-level obligations that held on this path."""
        self.stats["obligations"] += n
        self.stats["discharged"] += n

    def expect(self, cond, label):
        """Python-level obligation: cond may be bool, SymBool or z3 Bool."""
        if isinstance(cond, bool):
            if cond:
                self.ok()
                return True
            self.fail(label)
            return False
        return self.check_holds(cond, label)

    # ---------------------------------------------------------------- exploration
    def explore(self, fn, stop_on_cex=True, prefix=None, frontier_depth=None, slice_s=None, on_cex=None):
        """slice_s: after that many seconds the job stops at the next path end and hands the unexplored subtrees back
        (as decision prefixes in self.frontier), so that the pool can balance long-tailed jobs."""
        t_start = time.time()
        Engine.current = self
        self.trail = [[d, False, None] for d in (prefix or [])]
        nprefix = len(self.trail)
        self.frontier_depth = frontier_depth
        self.path_optimistic = 0
        self.known_seen = set()
        self.inputs = {}
        self._cex_seen = 0
        while True:
            self.pc = []
            self.decided = {}
            self.keep = []      # keeps recorded ASTs alive so that their ids are not reused
            self.cf_apps = []
            self.fresh = itertools.count()
            self.memo = {}
            self.subst = []
            self.pos = 0
            self.path_optimistic = 0
            self.model = None
            for reset in PATH_RESET:
                reset()
            try:
                out = fn(self)
                self.outcomes[out] = self.outcomes.get(out, 0) + 1
                if self.keep_paths and (len(self.path_log) < self.keep_paths or (
                        len(self.path_log) < 2 * self.keep_paths and out not in {p["outcome"] for p in self.path_log})):
                    self.path_log.append(dict(outcome=out, pc=list(self.pc), cf_apps=list(self.cf_apps)))
            except EngineAbort:
                self.stats["pruned"] += 1
            except Truncated:
                self.stats["truncated"] = self.stats.get("truncated", 0) + 1
            except Frontier:
                self.frontier.append([t[0] for t in self.trail])
            self.stats["paths"] += 1
            if self.cex and stop_on_cex:
                # on_cex(list of new counterexamples) -> True: confirmed (stop); False: not confirmed, keep exploring
                if on_cex is None or on_cex(self.cex[self._cex_seen:]):
                    break
                self._cex_seen = len(self.cex)
            while len(self.trail) > nprefix and not self.trail[-1][1]:
                self.trail.pop()
            if len(self.trail) <= nprefix:
                break
            if slice_s is not None and time.time() - t_start > slice_s:
                for i in range(nprefix, len(self.trail)):
                    if self.trail[i][1]:
                        self.frontier.append([t[0] for t in self.trail[:i]] + [not self.trail[i][0]])
                self.stats["handed_back"] = len(self.frontier)
                break
            self.trail[-1] = [not self.trail[-1][0], False, self.trail[-1][2]] + self.trail[-1][3:]
            if self.stats["paths"] >= self.max_paths:
                raise Budget("path budget exhausted")
            if self.deadline is not None and time.time() > self.deadline:
                raise Budget("job deadline exceeded")
        return self

    # ---------------------------------------------------------------- models for replay
    def concretize(self, pc, neg, cf_apps, block=(), pretty=True):
        """Solve pc (+neg) for a total, replayable model.  Returns dict name -> python value or None."""
        base = list(pc) + ([neg] if neg is not None else [])
        strs = [z3.String(n) for n, s in self.inputs.items() if s == "str"]
        nosur = [z3.Not(z3.InRe(v, HAS_SURROGATE)) for v in strs]
        cfdef = []
        short = z3.Loop(z3.Range(" ", "~"), 0, 3)
        for app in cf_apps:
            kind, t = app if isinstance(app, tuple) else ("casefold", app)
            if kind == "casefold":      # ASCII strings of length <= 3, plus the classic non-trivial foldings
                cfdef.append(z3.Or(z3.And(z3.InRe(t, short), CF(t) == ascii_lower_expr(t, 3)),
                                   z3.And(t == z3.StringVal("\u00df"), CF(t) == z3.StringVal("ss")),
                                   z3.And(t == z3.StringVal("\u017f"), CF(t) == z3.StringVal("s"))))
            elif kind == "islower":
                cfdef.append(z3.Or(z3.And(z3.InRe(t, short), ISLOWER(t) == ascii_islower_expr(t, 3)),
                                   z3.And(z3.Or(t == z3.StringVal("\u00df"), t == z3.StringVal("\u017f")), ISLOWER(t))))
            elif kind == "jsonesc":
                table = [('"', '\\"'), ("\\", "\\\\"), ("\n", "\\n"), ("\u00e9", "\\u00e9"), (chr(0x10000), "\\ud800\\udc00"),
                         (chr(0x1F600), "\\ud83d\\ude00")]
                cfdef.append(z3.Or(z3.And(z3.InRe(t, JSON_SAFE), JSON_ESC(t) == t),
                                   *[z3.And(t == z3.StringVal(a), JSON_ESC(t) == z3.StringVal(b)) for a, b in table]))
            elif kind.startswith("normalize:"):
                f = norm_fn(kind.split(":", 1)[1])
                composed = kind.endswith(("NFC", "NFKC"))
                pairs = [("e\u0301", "\u00e9"), ("\u00e9", "\u00e9"), ("A\u030a", "\u00c5"), ("\u212b", "\u00c5")] if composed else \
                        [("\u00e9", "e\u0301"), ("e\u0301", "e\u0301"), ("\u00c5", "A\u030a")]
                cfdef.append(z3.Or(z3.And(z3.InRe(t, short), f(t) == t),
                                   *[z3.And(t == z3.StringVal(a), f(t) == z3.StringVal(b)) for a, b in pairs]))
        blocks = [z3.Or([z3.String(n) != z3.StringVal(v) for n, v in b.items() if isinstance(v, str)] or [z3.BoolVal(False)])
                  for b in block]
        attempts = [
            nosur + cfdef + [z3.InRe(v, ALNUMISH) for v in strs] + [z3.Length(v) <= 8 for v in strs],
        ] if pretty else [nosur + cfdef + [z3.Length(v) <= 10 for v in strs]]
        attempts += [
            nosur + cfdef + [z3.InRe(v, PRINTABLE) for v in strs] + [z3.Length(v) <= 12 for v in strs],
            nosur + cfdef + [z3.InRe(v, PRINTABLE) for v in strs],
            nosur + cfdef,
            nosur,
            [],
        ]
        self.last_concretize_refined = True
        for extra in attempts:
            r, m = self._solve(base + list(extra) + blocks)
            if r == "sat" and m is not None:
                # was the character-level definition of casefold part of this attempt?
                self.last_concretize_refined = (not cf_apps) or any(e is c for e in extra for c in cfdef)
                out = {}
                for n, sort in self.inputs.items():
                    if sort == "str":
                        out[n] = z3str_to_py(m.value(z3.String(n)))
                    elif sort == "int":
                        out[n] = m.value(z3.Int(n)).as_long()
                    else:
                        out[n] = z3.is_true(m.value(z3.Bool(n)))
                return out
        return None


class ConcEngine:
    """Concrete engine: the same harness, run on the real curies with concrete input values."""

    symbolic = False

    def __init__(self, inputs, known_active=()):
        self.inputs = dict(inputs)
        self.known_active = set(known_active)
        self.cex = []
        self.stats = dict(obligations=0, discharged=0)
        self.numerals = ()
        self.known_seen = set()
        self.excluded = False

    def var(self, name, sort="str"):
        if sort == "str":
            return self.inputs.get(name, "")
        if sort == "int":
            return self.inputs.get(name, 0)
        return bool(self.inputs.get(name, False))

    def flag(self, name):
        return bool(self.inputs.get(name, False))

    def choice(self, name, options):
        return options[self.inputs.get(name, 0)]

    def mkdict(self, pairs=()):
        return dict(pairs)

    def mkset(self, items=()):
        return set(items)

    def cf(self, x):
        return z3.StringVal(x.casefold())

    @staticmethod
    def _ground(cond):
        if isinstance(cond, bool):
            return cond
        c = z3.simplify(_b(cond))
        if z3.is_true(c):
            return True
        if z3.is_false(c):
            return False
        s = z3.Solver()
        s.set("timeout", 20000)
        s.add(c)
        r = s.check()
        if r == z3.unknown:
            raise Unsupported("cannot evaluate ground formula")
        return r == z3.sat

    def assume(self, cond):
        if not self._ground(cond):
            raise EngineAbort()

    def known(self, predicate_name, cond):
        self.known_seen.add(predicate_name)
        if predicate_name in self.known_active and self._ground(cond):
            self.excluded = True
            raise EngineAbort()

    def branch(self, cond):
        return self._ground(cond)

    def check_holds(self, cond, label=""):
        self.stats["obligations"] += 1
        if self._ground(cond):
            self.stats["discharged"] += 1
            return True
        self.cex.append(dict(label=label))
        return False

    def fail(self, label):
        self.stats["obligations"] += 1
        self.cex.append(dict(label=label))

    def ok(self, n=1):
        self.stats["obligations"] += n
        self.stats["discharged"] += n

    def expect(self, cond, label):
        if isinstance(cond, bool):
            if cond:
                self.ok()
                return True
            self.fail(label)
            return False
        return self.check_holds(cond, label)

    def run(self, fn):
        prev = Engine.current
        Engine.current = self
        try:
            try:
                out = fn(self)
            except EngineAbort:
                out = "<precondition-not-met>"
        finally:
            Engine.current = prev
        return out


def E():
    return Engine.current


# -------------------------------------------------------------------- z3 helpers
_REG_KINDS = (z3.Z3_OP_SEQ_IN_RE, z3.Z3_OP_SEQ_CONTAINS, z3.Z3_OP_SEQ_PREFIX, z3.Z3_OP_SEQ_SUFFIX)


def _is_regular_literal(cond):
    c = cond.arg(0) if z3.is_not(cond) else cond
    if not z3.is_app(c):
        return False
    k = c.decl().kind()
    if k == z3.Z3_OP_SEQ_IN_RE:
        return True
    if k == z3.Z3_OP_SEQ_CONTAINS:
        return z3.is_string_value(c.arg(1))
    if k in (z3.Z3_OP_SEQ_PREFIX, z3.Z3_OP_SEQ_SUFFIX):
        return z3.is_string_value(c.arg(0))
    if k == z3.Z3_OP_EQ and c.arg(0).sort() == z3.StringSort():
        return z3.is_string_value(c.arg(0)) != z3.is_string_value(c.arg(1))
    return False


def _is_membership(cond):
    c = cond.arg(0) if z3.is_not(cond) else cond
    return z3.is_app_of(c, z3.Z3_OP_SEQ_IN_RE)


def _flatten_raw(e, out):
    if z3.is_app_of(e, z3.Z3_OP_SEQ_CONCAT):
        for c in e.children():
            _flatten_raw(c, out)
    elif z3.is_app_of(e, z3.Z3_OP_SEQ_UNIT) and e.sort() == z3.StringSort() and z3.is_app(e.arg(0)) \
            and e.arg(0).decl().kind() == z3.Z3_OP_CHAR_CONST:
        out.append(z3.StringVal(chr(e.arg(0).decl().params()[0])))     # z3's simplifier sometimes splits constants into units
    else:
        out.append(e)


def flatten(e):
    """Parts of a concatenation, with unit characters turned back into constants and adjacent constants merged."""
    raw = []
    _flatten_raw(e, raw)
    out = []
    for p in raw:
        if out and z3.is_string_value(p) and z3.is_string_value(out[-1]):
            out[-1] = z3.StringVal(z3str_to_py(out[-1]) + z3str_to_py(p))
        else:
            out.append(p)
    return out


def order_simplify(cond):
    """a ++ x < a ++ y  <=>  x < y: a common leading part (identical terms, or common leading characters of constants)
    does not influence the lexicographic order, and two constant heads that differ in their first character decide it.
    Both solvers can hang on comparisons such as  mp ++ "10" < mp ++ "2"  that this settles syntactically."""
    if not (z3.is_app(cond) and cond.decl().kind() in (z3.Z3_OP_STRING_LT, z3.Z3_OP_STRING_LE)):
        return cond
    le = cond.decl().kind() == z3.Z3_OP_STRING_LE
    a, b = flatten(cond.arg(0)), flatten(cond.arg(1))
    a = [p for p in a if not (z3.is_string_value(p) and z3str_to_py(p) == "")]
    b = [p for p in b if not (z3.is_string_value(p) and z3str_to_py(p) == "")]
    changed = False
    while a and b:
        x, y = a[0], b[0]
        if x.eq(y):
            a.pop(0)
            b.pop(0)
            changed = True
            continue
        if z3.is_string_value(x) and z3.is_string_value(y):
            sx, sy = z3str_to_py(x), z3str_to_py(y)
            n = 0
            while n < len(sx) and n < len(sy) and sx[n] == sy[n]:
                n += 1
            if n < len(sx) and n < len(sy):
                return z3.BoolVal(sx[n] < sy[n])        # first difference inside the constants: code point order
            if n == 0:
                break
            changed = True
            a[0:1] = [z3.StringVal(sx[n:])] if n < len(sx) else []
            b[0:1] = [z3.StringVal(sy[n:])] if n < len(sy) else []
            continue
        break
    if not changed:
        return cond
    if not a and not b:
        return z3.BoolVal(le)
    if not a:
        return z3.BoolVal(True) if le else z3.Length(cat(b)) > 0
    if not b:
        return (z3.Length(cat(a)) == 0) if le else z3.BoolVal(False)
    return (cat(a) <= cat(b)) if le else (cat(a) < cat(b))


def cat(parts):
    parts = [p for p in parts if not (z3.is_string_value(p) and z3str_to_py(p) == "")]
    if not parts:
        return z3.StringVal("")
    return parts[0] if len(parts) == 1 else z3.Concat(*parts)


def _b(x):
    if isinstance(x, SymBool):
        return x.e
    if isinstance(x, bool):
        return z3.BoolVal(x)
    return x


def _s(x):
    if isinstance(x, SymStr):
        return x.e
    if isinstance(x, str):
        return z3.StringVal(x)
    if z3.is_expr(x):
        return x
    raise Unsupported(f"not a string: {type(x)}")


def _i(x):
    if isinstance(x, SymInt):
        return x.e
    if isinstance(x, bool):
        return z3.IntVal(int(x))
    if isinstance(x, int):
        return z3.IntVal(x)
    if z3.is_expr(x):
        return x
    raise Unsupported(f"not an int: {type(x)}")


def is_strlike(x):
    return isinstance(x, (str, SymStr))


def substr_from(q, n):
    """q[n:] for 0 <= n <= len(q) as a z3 term"""
    return z3.SubString(q, n, z3.Length(q) - n)


# -------------------------------------------------------------------- character class tables
def _ranges(pred, maxcp=0x2FFFF):
    out, start = [], None
    for cp in range(maxcp + 1):
        ok = pred(chr(cp))
        if ok and start is None:
            start = cp
        if not ok and start is not None:
            out.append((start, cp - 1))
            start = None
    if start is not None:
        out.append((start, maxcp))
    return out


_TABLES = {}


def char_table(name):
    """Code point ranges of a str predicate, computed from the running interpreter (static table)."""
    if name not in _TABLES:
        pred = {"isspace": str.isspace, "isalnum": str.isalnum, "isdigit": str.isdigit, "isalpha": str.isalpha}[name]
        _TABLES[name] = _ranges(pred)
    return _TABLES[name]


def ranges_re(rs):
    parts = [z3.Range(chr(a), chr(b)) if a != b else z3.Re(chr(a)) for a, b in rs]
    if not parts:
        return z3.Empty(RE_SORT)
    return parts[0] if len(parts) == 1 else z3.Union(*parts)


_WS_RE = None


def ws_re():
    global _WS_RE
    if _WS_RE is None:
        _WS_RE = ranges_re(char_table("isspace"))
    return _WS_RE


ASCII_ALNUM = z3.Union(z3.Range("0", "9"), z3.Range("a", "z"), z3.Range("A", "Z"))
ASCII_ONLY = z3.Star(z3.Range("\x00", "\x7f"))


# -------------------------------------------------------------------- proxies
class SymBool:
    __slots__ = ("e",)

    def __init__(self, e):
        self.e = e

    def __bool__(self):
        return E().branch(self.e)

    def __eq__(self, o):
        if isinstance(o, (bool, SymBool)):
            return SymBool(self.e == _b(o))
        return NotImplemented

    def __ne__(self, o):
        if isinstance(o, (bool, SymBool)):
            return SymBool(self.e != _b(o))
        return NotImplemented

    def __invert__(self):
        return SymBool(z3.Not(self.e))

    def __and__(self, o):
        return SymBool(z3.And(self.e, _b(o)))

    __rand__ = __and__

    def __or__(self, o):
        return SymBool(z3.Or(self.e, _b(o)))

    __ror__ = __or__

    def __hash__(self):
        raise Unsupported("hash(SymBool)")

    def __repr__(self):
        return f"SymBool({self.e})"


class SymAffix(SymBool):
    """s.startswith(p) / s.endswith(p).  When the test is taken on its true side and s is still an undecomposed
    variable, s is decomposed as p ++ rest (rest ++ p), so that later slices such as s[len(p):] stay structural."""
    __slots__ = ("s", "p", "front")

    def __init__(self, s, p, front):
        self.s, self.p, self.front = s, p, front
        self.e = z3.PrefixOf(p, s) if front else z3.SuffixOf(p, s)

    def __bool__(self):
        eng = E()
        r = eng.branch(self.e)
        if r and getattr(eng, "symbolic", False):
            v = eng.norm(self.s)
            pn = eng.norm(self.p)
            # (a long constant affix is cheaper to keep as a plain prefixof / suffixof literal)
            if (z3.is_const(v) and v.decl().kind() == z3.Z3_OP_UNINTERPRETED
                    and (not z3.is_string_value(pn) or 0 < len(z3str_to_py(pn)) <= 2)
                    and not any(x.eq(v) for x in flatten(pn))):
                eng.keep.extend([v, pn])
                key = ("affix", v.get_id(), pn.get_id(), self.front)
                if key not in eng.memo:
                    rest = eng.fresh_str("ar")
                    eng.memo[key] = rest
                    rep = z3.Concat(pn, rest) if self.front else z3.Concat(rest, pn)
                    eng.define(v == rep)
                    eng.subst.append((v, rep))
            elif z3.is_string_value(pn) and len(z3str_to_py(pn)) == 1 and z3.is_app_of(v, z3.Z3_OP_SEQ_CONCAT):
                # a one-character affix of a concatenation: it sits in the first (last) non-empty part
                parts = flatten(v)
                order = range(len(parts)) if self.front else range(len(parts) - 1, -1, -1)
                for i in order:
                    part = eng.norm(parts[i])
                    if z3.is_string_value(part):
                        if z3str_to_py(part):
                            break
                        continue
                    if not (z3.is_const(part) and part.decl().kind() == z3.Z3_OP_UNINTERPRETED):
                        break
                    if eng.branch(z3.Length(part) > 0):
                        rest = eng.fresh_str("ar")
                        rep = z3.Concat(pn, rest) if self.front else z3.Concat(rest, pn)
                        eng.define(part == rep)
                        eng.subst.append((part, rep))
                        break
                    eng.subst.append((part, z3.StringVal("")))
        return r


class SymInt:
    __slots__ = ("e",)

    def __init__(self, e):
        self.e = e

    def _bin(self, o, f):
        if isinstance(o, bool) or not isinstance(o, (int, SymInt)):
            return NotImplemented
        return SymInt(f(self.e, _i(o)))

    def __add__(self, o): return self._bin(o, lambda a, b: a + b)
    def __radd__(self, o): return self._bin(o, lambda a, b: b + a)
    def __sub__(self, o): return self._bin(o, lambda a, b: a - b)
    def __rsub__(self, o): return self._bin(o, lambda a, b: b - a)
    def __mul__(self, o): return self._bin(o, lambda a, b: a * b)
    def __rmul__(self, o): return self._bin(o, lambda a, b: b * a)
    def __neg__(self): return SymInt(-self.e)
    def __pos__(self): return self

    def _cmp(self, o, f):
        if not isinstance(o, (int, SymInt)):
            return NotImplemented
        return SymBool(f(self.e, _i(o)))

    def __eq__(self, o): return self._cmp(o, lambda a, b: a == b)
    def __ne__(self, o): return self._cmp(o, lambda a, b: a != b)
    def __lt__(self, o): return self._cmp(o, lambda a, b: a < b)
    def __le__(self, o): return self._cmp(o, lambda a, b: a <= b)
    def __gt__(self, o): return self._cmp(o, lambda a, b: a > b)
    def __ge__(self, o): return self._cmp(o, lambda a, b: a >= b)

    def __bool__(self):
        return E().branch(self.e != 0)

    def __hash__(self):
        raise Unsupported("hash(SymInt)")

    def __index__(self):
        raise Unsupported("SymInt used as concrete index")

    def __repr__(self):
        return f"SymInt({self.e})"


class SymReal:
    __slots__ = ("e",)

    def __init__(self, e):
        self.e = e

    def _cmp(self, o, f):
        oe = o.e if isinstance(o, SymReal) else z3.RealVal(o)
        return SymBool(f(self.e, oe))

    def __eq__(self, o): return self._cmp(o, lambda a, b: a == b)
    def __ne__(self, o): return self._cmp(o, lambda a, b: a != b)
    def __lt__(self, o): return self._cmp(o, lambda a, b: a < b)
    def __le__(self, o): return self._cmp(o, lambda a, b: a <= b)
    def __gt__(self, o): return self._cmp(o, lambda a, b: a > b)
    def __ge__(self, o): return self._cmp(o, lambda a, b: a >= b)
    def __neg__(self): return SymReal(-self.e)
    def __hash__(self): raise Unsupported("hash(SymReal)")
    def __repr__(self): return f"SymReal({self.e})"


# strings Python's float() rejects for sure: contain a char outside the float alphabet
NOTFLOAT = z3.Concat(ANYSTR,
                     z3.Union(z3.Range("g", "h"), z3.Range("j", "m"), z3.Range("o", "z"), z3.Re(";"), z3.Re("="),
                              z3.Re("/"), z3.Re(","), z3.Re("*"), z3.Re("q"), z3.Re("Q")),
                     ANYSTR)


def sym_float(x=0.0):
    """float() over a symbolic string: fork over the engine's finite numeral registry (see DESIGN, C18)."""
    if not isinstance(x, SymStr):
        return float(x)
    eng = E()
    e = eng.norm(x.e)
    if z3.is_string_value(e):
        return float(z3str_to_py(e))
    if not eng.numerals:
        raise Unsupported("float() of a symbolic string without a numeral registry")
    # surrounding whitespace is accepted by float(): compare the stripped core
    for c in eng.numerals:
        if eng.branch(z3.InRe(e, z3.Concat(z3.Star(ws_re()), z3.Re(c), z3.Star(ws_re())))):
            return float(c)
    if eng.branch(z3.InRe(e, NOTFLOAT)):
        raise ValueError("could not convert string to float")
    if eng.branch(z3.InRe(e, z3.Star(ws_re()))):
        raise ValueError("could not convert string to float: blank")
    raise Unsupported("float() of a string outside the numeral registry")


PATH_RESET = []     # callables that clear state living outside the harness run (module-level memo tables of the stubs)


class SymStr:
    __slots__ = ("e",)

    def __init__(self, e):
        self.e = e if not isinstance(e, str) else z3.StringVal(e)

    # -- comparisons
    def __eq__(self, o):
        if not is_strlike(o):
            return False
        return SymBool(self.e == _s(o))

    def __ne__(self, o):
        if not is_strlike(o):
            return True
        return SymBool(self.e != _s(o))

    def _ord(self, o, f):
        if not is_strlike(o):
            raise TypeError("'<' not supported between instances of 'str' and '%s'" % type(o).__name__)
        return SymBool(f(self.e, _s(o)))

    def __lt__(self, o): return self._ord(o, lambda a, b: a < b)
    def __le__(self, o): return self._ord(o, lambda a, b: a <= b)
    def __gt__(self, o): return self._ord(o, lambda a, b: b < a)
    def __ge__(self, o): return self._ord(o, lambda a, b: b <= a)

    def __hash__(self):
        raise Unsupported("hash(SymStr): symbolic string reached a real dict/set")

    def __bool__(self):
        return E().branch(z3.Length(self.e) > 0)

    def __len__(self):
        raise Unsupported("len(SymStr) via builtin; loader should have rewritten it")

    def sym_len(self):
        return SymInt(z3.Length(self.e))

    def __add__(self, o):
        if not is_strlike(o):
            return NotImplemented
        return SymStr(z3.Concat(self.e, _s(o)))

    def __radd__(self, o):
        if not is_strlike(o):
            return NotImplemented
        return SymStr(z3.Concat(_s(o), self.e))

    def __mul__(self, n):
        if isinstance(n, int) and not isinstance(n, bool):
            return SymStr(cat([self.e] * n)) if n > 0 else ""
        raise Unsupported("str * symbolic int")

    __rmul__ = __mul__

    def __contains__(self, o):
        if not is_strlike(o):
            raise TypeError("'in <string>' requires string as left operand")
        return bool(SymBool(z3.Contains(self.e, _s(o))))

    def __iter__(self):
        raise Unsupported("iteration over the characters of a symbolic string")

    def __getitem__(self, k):
        n = z3.Length(self.e)
        if isinstance(k, slice):
            if k.step not in (None, 1):
                raise Unsupported("slice step")
            eng = E()

            def clamp(v):
                """Python's slice index normalisation, by case split (keeps the terms free of ite)."""
                v = _i(v)
                if eng.branch(v < 0):
                    return v + n if eng.branch(v + n >= 0) else z3.IntVal(0)
                return v if eng.branch(v <= n) else n
            lo = z3.IntVal(0) if k.start is None else clamp(k.start)
            base = eng.norm(self.e)
            parts = flatten(base)

            def cut(pos):
                """(parts before pos, parts from pos) if pos falls on a part boundary or inside a constant part."""
                pos = z3.simplify(pos)
                acc = z3.IntVal(0)
                for idx in range(len(parts) + 1):
                    d = z3.simplify(pos - acc)
                    if z3.is_int_value(d):
                        c = d.as_long()
                        if c == 0:
                            return parts[:idx], parts[idx:]
                        if idx < len(parts) and z3.is_string_value(parts[idx]) and 0 < c <= len(z3str_to_py(parts[idx])):
                            txt = z3str_to_py(parts[idx])
                            return parts[:idx] + [z3.StringVal(txt[:c])], [z3.StringVal(txt[c:])] + parts[idx + 1:]
                    if idx < len(parts):
                        acc = z3.simplify(acc + z3.Length(parts[idx]))
                return None
            if k.stop is None:
                c = cut(lo) if len(parts) > 1 else None
                if c is not None:
                    return SymStr(cat(c[1]))
                return SymStr(z3.simplify(z3.SubString(self.e, lo, n - lo)))
            hi = clamp(k.stop)
            if k.start is None:
                c = cut(hi) if len(parts) > 1 else None
                if c is not None:
                    return SymStr(cat(c[0]))
                return SymStr(z3.simplify(z3.SubString(self.e, 0, hi)))
            if not eng.branch(hi >= lo):
                return ""
            return SymStr(z3.simplify(z3.SubString(self.e, lo, hi - lo)))
        i = _i(k)
        i = z3.If(i < 0, i + n, i)
        if not E().branch(z3.And(i >= 0, i < n)):
            raise IndexError("string index out of range")
        return SymStr(z3.SubString(self.e, i, 1))

    def __repr__(self):
        return f"SymStr({self.e})"

    def __str__(self):
        raise Unsupported("str(SymStr) via real builtin")

    def __format__(self, spec):
        raise Unsupported("format(SymStr) via real builtin; f-string not rewritten")

    def __sym_str__(self):
        return self

    # -- predicates
    def startswith(self, p, *a):
        if a:
            raise Unsupported("startswith with start/end")
        if isinstance(p, tuple):
            return SymBool(z3.Or([z3.PrefixOf(_s(x), self.e) for x in p]))
        return SymAffix(self.e, _s(p), True)

    def endswith(self, p, *a):
        if a:
            raise Unsupported("endswith with start/end")
        if isinstance(p, tuple):
            return SymBool(z3.Or([z3.SuffixOf(_s(x), self.e) for x in p]))
        return SymAffix(self.e, _s(p), False)

    def _cls(self, name):
        if getattr(E(), "ascii_classes", False):
            if name == "isalnum":
                return SymBool(z3.InRe(self.e, z3.Plus(ASCII_ALNUM)))
            if name == "isdigit":
                return SymBool(z3.InRe(self.e, z3.Plus(z3.Range("0", "9"))))
            if name == "isalpha":
                return SymBool(z3.InRe(self.e, z3.Plus(z3.Union(z3.Range("a", "z"), z3.Range("A", "Z")))))
        return SymBool(z3.InRe(self.e, z3.Plus(ranges_re(char_table(name)))))

    def isalnum(self): return self._cls("isalnum")
    def isdigit(self): return self._cls("isdigit")
    def isalpha(self): return self._cls("isalpha")
    def isspace(self): return self._cls("isspace")

    def isascii(self):
        return SymBool(z3.InRe(self.e, ASCII_ONLY))

    def __getattr__(self, name):
        # any str method the proxy does not model: inconclusive, never an AttributeError attributed to the code under test
        if name.startswith("__"):
            raise AttributeError(name)
        raise Unsupported(f"str.{name} is not modelled by the string proxy")

    def islower(self):
        E().cf_apps.append(("islower", self.e))
        return SymBool(ISLOWER(self.e))

    def isnumeric(self): raise Unsupported("isnumeric")
    def isdecimal(self): raise Unsupported("isdecimal")
    def isidentifier(self): raise Unsupported("isidentifier")

    # -- splitting
    def _split1(self, sep, right):
        """Split at the first (right=False) / last (right=True) occurrence of sep.
        Returns None if sep does not occur, else (head_expr, tail_expr)."""
        eng = E()
        sep_e = eng.norm(_s(sep))
        e = eng.norm(self.e)
        if z3.is_string_value(sep_e) and len(z3str_to_py(sep_e)) == 0:
            raise ValueError("empty separator")
        if z3.is_string_value(e) and z3.is_string_value(sep_e):
            txt, c = z3str_to_py(e), z3str_to_py(sep_e)
            if c not in txt:
                return None
            h, t = txt.rsplit(c, 1) if right else txt.split(c, 1)
            return z3.StringVal(h), z3.StringVal(t)
        single = z3.is_string_value(sep_e) and len(z3str_to_py(sep_e)) == 1
        if single:
            c = z3str_to_py(sep_e)
            parts = flatten(e)
            order = range(len(parts) - 1, -1, -1) if right else range(len(parts))
            for i in order:
                pi = parts[i]
                before, after = parts[:i], parts[i + 1:]
                if z3.is_string_value(pi):
                    txt = z3str_to_py(pi)
                    if c not in txt:
                        continue
                    h, t = (txt.rsplit(c, 1) if right else txt.split(c, 1))
                    return cat(before + [z3.StringVal(h)]), cat([z3.StringVal(t)] + after)
                if not eng.branch(z3.Contains(pi, sep_e)):
                    continue
                eng.keep.extend([pi, sep_e])
                key = ("r" if right else "p", pi.get_id(), sep_e.get_id())
                if key not in eng.memo:
                    x, y = eng.fresh_str("h"), eng.fresh_str("t")
                    eng.memo[key] = (x, y)
                    eng.define(pi == z3.Concat(x, sep_e, y), z3.Not(z3.Contains(y if right else x, sep_e)))
                    if z3.is_const(pi) and pi.decl().kind() == z3.Z3_OP_UNINTERPRETED:
                        eng.subst.append((pi, z3.Concat(x, sep_e, y)))
                x, y = eng.memo[key]
                return cat(before + [x]), cat([y] + after)
            return None
        # multi-character or symbolic separator: look for a *structural* occurrence first (the separator
        # term itself as one part of the concatenation, or inside a constant part), and ask the solver only
        # whether another occurrence precedes (follows) it.
        parts = flatten(e)
        n = z3.Length(sep_e)
        sep_txt = z3str_to_py(sep_e) if z3.is_string_value(sep_e) else None
        order = range(len(parts) - 1, -1, -1) if right else range(len(parts))
        cand = None
        for i in order:
            pi = parts[i]
            if pi.eq(sep_e):
                cand = (parts[:i], parts[i + 1:])
                break
            if sep_txt is not None and z3.is_string_value(pi) and sep_txt in z3str_to_py(pi):
                txt = z3str_to_py(pi)
                h, t = txt.rsplit(sep_txt, 1) if right else txt.split(sep_txt, 1)
                cand = (parts[:i] + [z3.StringVal(h)], [z3.StringVal(t)] + parts[i + 1:])
                break
        if cand is None and sep_txt is not None:
            # a constant separator may only appear across parts when the symbolic "glue" between two constant
            # parts is empty: fork on that emptiness and retry on the merged constants
            for i in range(1, len(parts) - 1):
                pi = parts[i]
                if (z3.is_const(pi) and pi.decl().kind() == z3.Z3_OP_UNINTERPRETED and z3.is_string_value(parts[i - 1])
                        and z3.is_string_value(parts[i + 1])
                        and sep_txt in (z3str_to_py(parts[i - 1]) + z3str_to_py(parts[i + 1]))):
                    if eng.branch(pi == z3.StringVal("")):
                        eng.subst.append((pi, z3.StringVal("")))
                        return self._split1(sep, right)
        if cand is not None:
            before, after = cat(cand[0]), cat(cand[1])
            if right:
                other = z3.Contains(z3.Concat(z3.SubString(sep_e, 1, n - 1), after), sep_e)
            else:
                other = z3.Contains(z3.Concat(before, z3.SubString(sep_e, 0, n - 1)), sep_e)
            if not eng.branch(other):
                return before, after
        elif not eng.branch(z3.Contains(e, sep_e)):
            return None
        eng.keep.extend([e, sep_e])
        key = ("r" if right else "p", e.get_id(), sep_e.get_id())
        if key not in eng.memo:
            x, y = eng.fresh_str("h"), eng.fresh_str("t")
            eng.memo[key] = (x, y)
            if right:
                eng.define(e == z3.Concat(x, sep_e, y),
                           z3.Not(z3.Contains(z3.Concat(z3.SubString(sep_e, 1, n - 1), y), sep_e)))
            else:
                eng.define(e == z3.Concat(x, sep_e, y),
                           z3.Not(z3.Contains(z3.Concat(x, z3.SubString(sep_e, 0, n - 1)), sep_e)))
            if z3.is_const(e) and e.decl().kind() == z3.Z3_OP_UNINTERPRETED:
                eng.subst.append((e, z3.Concat(x, sep_e, y)))
        return eng.memo[key]

    def partition(self, sep):
        r = self._split1(sep, right=False)
        if r is None:
            return self, "", ""
        return SymStr(r[0]), sep, SymStr(r[1])

    def rpartition(self, sep):
        r = self._split1(sep, right=True)
        if r is None:
            return "", "", self
        return SymStr(r[0]), sep, SymStr(r[1])

    def rsplit(self, sep=None, maxsplit=-1):
        if sep is None:
            raise Unsupported("rsplit() on whitespace")
        if maxsplit == 1:
            r = self._split1(sep, right=True)
            return [self] if r is None else [SymStr(r[0]), SymStr(r[1])]
        if maxsplit == 0:
            return [self]
        return self.split(sep, maxsplit)

    def split(self, sep=None, maxsplit=-1):
        if sep is None:
            raise Unsupported("split() on whitespace")
        if maxsplit == 0:
            return [self]
        if maxsplit >= 1:
            out, cur = [], self
            for _ in range(maxsplit):
                r = cur._split1(sep, right=False) if isinstance(cur, SymStr) else (
                    None if sep not in cur else tuple(z3.StringVal(x) for x in cur.split(sep, 1)))
                if r is None:
                    break
                out.append(SymStr(r[0]))
                cur = SymStr(r[1])
            out.append(cur)
            return out
        if not isinstance(sep, str) or len(sep) != 1:
            # symbolic or multi-character separator: unroll up to SPLIT_UNROLL occurrences
            out, cur = [], self
            for _ in range(SPLIT_UNROLL):
                r = cur._split1(sep, right=False)
                if r is None:
                    out.append(cur)
                    return out
                out.append(SymStr(r[0]))
                cur = SymStr(r[1])
            if E().branch(z3.Contains(cur.e, _s(sep))):
                raise Truncated("split(): more separator occurrences than the unrolling bound")
            out.append(cur)
            return out
        eng = E()
        out, cur = [], []
        for part in flatten(eng.norm(self.e)):
            if z3.is_string_value(part):
                pieces = z3str_to_py(part).split(sep)
                cur.append(z3.StringVal(pieces[0]))
                for pc_ in pieces[1:]:
                    out.append(SymStr(cat(cur)))
                    cur = [z3.StringVal(pc_)]
            else:
                if eng.branch(z3.Contains(part, z3.StringVal(sep))):
                    raise Truncated("split: a symbolic part may contain any number of separators")
                cur.append(part)
        out.append(SymStr(cat(cur)))
        return out

    def _find(self, sub, right):
        """index of the first / last occurrence or -1, through the structural split (keeps terms decomposed)."""
        if isinstance(sub, str) and sub == "":
            return self.sym_len() if right else 0
        r = self._split1(sub, right=right)
        if r is None:
            return -1
        return SymInt(z3.simplify(z3.Length(r[0])))

    def find(self, sub, *a):
        if a:
            raise Unsupported("find with start/end")
        return self._find(sub, False)

    def rfind(self, sub, *a):
        if a:
            raise Unsupported("rfind with start/end")
        return self._find(sub, True)

    def index(self, sub, *a):
        r = self.find(sub, *a)
        if isinstance(r, int) and r == -1:
            raise ValueError("substring not found")
        return r

    def rindex(self, sub, *a):
        r = self.rfind(sub, *a)
        if isinstance(r, int) and r == -1:
            raise ValueError("substring not found")
        return r

    def count(self, sub, *a):
        raise Unsupported("str.count on a symbolic string")

    def removeprefix(self, p):
        pe = _s(p)
        return SymStr(z3.If(z3.PrefixOf(pe, self.e), substr_from(self.e, z3.Length(pe)), self.e))

    def removesuffix(self, p):
        pe = _s(p)
        return SymStr(z3.If(z3.And(z3.SuffixOf(pe, self.e), z3.Length(pe) > 0),
                            z3.SubString(self.e, 0, z3.Length(self.e) - z3.Length(pe)), self.e))

    def replace(self, old, new, count=-1):
        if count == 1:
            return SymStr(z3.Replace(self.e, _s(old), _s(new)))
        e = E().norm(self.e)
        if z3.is_string_value(e) and isinstance(old, str) and isinstance(new, str):
            return z3str_to_py(e).replace(old, new, count)
        if isinstance(old, str) and isinstance(new, str) and count == -1:
            # all-occurrence replacement by constants: an uninterpreted function per (old, new); only congruence is
            # used by the solver, the real function on replay
            f = z3.Function("replace_all_%s_%s" % (old.encode("unicode_escape").hex(), new.encode("unicode_escape").hex()),
                            z3.StringSort(), z3.StringSort())
            return SymStr(f(self.e))
        raise Unsupported("str.replace with symbolic arguments")

    def _strip(self, chars, left, right):
        if chars is None:
            cls = ws_re()
        else:
            if not isinstance(chars, str):
                raise Unsupported("strip with symbolic chars")
            if not chars:
                return self
            cls = z3.Union(*[z3.Re(c) for c in chars]) if len(chars) > 1 else z3.Re(chars)
        return SymStripped(self.e, cls, chars, left, right)

    def strip(self, chars=None): return self._strip(chars, True, True)
    def lstrip(self, chars=None): return self._strip(chars, True, False)
    def rstrip(self, chars=None): return self._strip(chars, False, True)

    def casefold(self):
        E().cf_apps.append(self.e)
        return SymStr(CF(self.e))

    def lower(self):
        E().cf_apps.append(self.e)
        return SymStr(CF(self.e))

    def upper(self):
        return SymStr(UP(self.e))

    def encode(self, *a, **k):
        raise Unsupported("str.encode on a symbolic string")

    def format(self, *a, **k):
        raise Unsupported("str.format on a symbolic template")

    def __mod__(self, args):
        """printf-style formatting of a template that contains symbolic text.  Three cases: no symbolic piece holds a
        '%' (the literal pieces are formatted, %s / %d / %% only); every '%' of the symbolic pieces is doubled (the
        result is some unspecified string); otherwise a stray conversion consumes an argument the literal pieces need
        or is invalid, and CPython raises TypeError or ValueError (modelled as TypeError; the replay shows the real one)."""
        eng = E()
        pieces = flatten(self.e)
        sym = [p for p in pieces if not z3.is_string_value(p)]
        pct = z3.StringVal("%")
        if sym and eng.branch(z3.Or(*[z3.Contains(p, pct) for p in sym])):
            other = z3.Intersect(z3.AllChar(z3.ReSort(z3.StringSort())), z3.Complement(z3.Re("%")))
            doubled = z3.Star(z3.Union(other, z3.Re("%%")))
            if eng.branch(z3.And(*[z3.InRe(p, doubled) for p in sym])):
                return SymStr(eng.fresh_str("fmt"))
            raise TypeError("not enough arguments for format string")
        args = list(args) if isinstance(args, tuple) else [args]
        out = []
        for p in pieces:
            if not z3.is_string_value(p):
                out.append(SymStr(p))
                continue
            lit = z3str_to_py(p)
            i = 0
            buf = ""
            while i < len(lit):
                ch = lit[i]
                if ch != "%":
                    buf += ch
                    i += 1
                    continue
                conv = lit[i + 1:i + 2]
                if conv == "%":
                    buf += "%"
                elif conv in ("s", "d", "i"):
                    if not args:
                        raise TypeError("not enough arguments for format string")
                    a = args.pop(0)
                    if conv != "s" and is_strlike(a):
                        raise TypeError("%d format: a real number is required, not str")
                    if buf:
                        out.append(buf)
                        buf = ""
                    out.append(a if is_strlike(a) else sym_str(a))
                else:
                    raise Unsupported(f"printf conversion %{conv} on a symbolic template")
                i += 2
            if buf:
                out.append(buf)
        if args:
            raise TypeError("not all arguments converted during string formatting")
        return sym_fmt(*out)

    def join(self, it):
        return sym_join(self, it)

    def splitlines(self, *a):
        raise Unsupported("splitlines on a symbolic string")

    def title(self): raise Unsupported("title")
    def capitalize(self): raise Unsupported("capitalize")
    def swapcase(self): raise Unsupported("swapcase")
    def zfill(self, n): raise Unsupported("zfill")


class SymStripped(SymStr):
    """Result of str.strip()/lstrip()/rstrip(): decomposed into fresh variables only when its content is
    needed; truthiness (the common `if not s.strip()`) is a plain regular-membership test on the base."""
    __slots__ = ("base", "cls", "chars", "left", "right", "_e")

    def __init__(self, base, cls, chars, left, right):
        self.base, self.cls, self.chars, self.left, self.right = base, cls, chars, left, right
        self._e = None

    @property
    def e(self):
        if self._e is None:
            eng = E()
            b = eng.norm(self.base)
            eng.keep.extend([b])
            key = ("strip", b.get_id(), self.chars, self.left, self.right)
            if key not in eng.memo:
                eng.memo[key] = self._materialise(eng, b)
            self._e = eng.memo[key]
        return self._e

    def _materialise(self, eng, b):
        """Structural strip: peel the parts of the concatenation from the outside; only a part that may end
        (begin) inside the stripped class is decomposed with fresh variables."""
        cls, star = self.cls, z3.Star(self.cls)
        notcls = z3.Diff(ANYCHAR, cls)
        chars = None if self.chars is None else set(self.chars)

        def in_cls(ch):
            return ch.isspace() if chars is None else ch in chars

        def peel(parts, from_left):
            parts = list(parts)
            while parts:
                p = parts[0] if from_left else parts[-1]
                if z3.is_string_value(p):
                    txt = z3str_to_py(p)
                    while txt and in_cls(txt[0] if from_left else txt[-1]):
                        txt = txt[1:] if from_left else txt[:-1]
                    if txt:
                        parts[0 if from_left else -1] = z3.StringVal(txt)
                        return parts
                    parts.pop(0 if from_left else -1)
                    continue
                if eng.branch(z3.InRe(p, star)):
                    parts.pop(0 if from_left else -1)
                    continue
                edge = z3.Concat(notcls, ANYSTR) if from_left else z3.Concat(ANYSTR, notcls)
                if eng.branch(z3.InRe(p, edge)):
                    return parts
                # p = (class chars)* ++ core, core beginning (ending) outside the class
                eng.keep.extend([p])
                k = ("peel", p.get_id(), self.chars, from_left)
                if k not in eng.memo:
                    w, core = eng.fresh_str("sw"), eng.fresh_str("sc")
                    eng.memo[k] = core
                    if from_left:
                        eng.define(p == z3.Concat(w, core), z3.InRe(w, z3.Plus(cls)), z3.InRe(core, edge))
                        rep = z3.Concat(w, core)
                    else:
                        eng.define(p == z3.Concat(core, w), z3.InRe(w, z3.Plus(cls)), z3.InRe(core, edge))
                        rep = z3.Concat(core, w)
                    if z3.is_const(p) and p.decl().kind() == z3.Z3_OP_UNINTERPRETED:
                        eng.subst.append((p, rep))
                parts[0 if from_left else -1] = eng.memo[k]
                return parts
            return parts
        parts = flatten(b)
        if self.left:
            parts = peel(parts, True)
        if self.right:
            parts = peel(parts, False)
        return cat(parts)

    def __bool__(self):
        if self._e is None:
            return E().branch(z3.Not(z3.InRe(self.base, z3.Star(self.cls))))
        return E().branch(z3.Length(self._e) > 0)


SPLIT_UNROLL = 2
CF = z3.Function("casefold", z3.StringSort(), z3.StringSort())
UP = z3.Function("upper", z3.StringSort(), z3.StringSort())


ISLOWER = z3.Function("islower", z3.StringSort(), z3.BoolSort())
_NORM = {}


def norm_fn(form):
    if form not in _NORM:
        _NORM[form] = z3.Function("normalize_" + form, z3.StringSort(), z3.StringSort())
    return _NORM[form]


def sym_normalize(form, s):
    """unicodedata.normalize on a proxy: an uninterpreted function per normal form (congruence only); counterexamples
    are refined with a small table of composed / decomposed pairs."""
    if not isinstance(s, SymStr):
        import unicodedata
        return unicodedata.normalize(form, s)
    if not isinstance(form, str):
        raise Unsupported("symbolic normal form")
    E().cf_apps.append(("normalize:" + form, s.e))
    return SymStr(norm_fn(form)(s.e))


JSON_ESC = z3.Function("json_escape_ascii", z3.StringSort(), z3.StringSort())
JSON_SAFE = z3.Star(z3.Union(z3.Range(" ", "!"), z3.Range("#", "["), z3.Range("]", "~")))     # printable ASCII without " and \\
ASTRAL = z3.Range(chr(0x10000), chr(0x2FFFF))


def sym_json_string(s, ensure_ascii=True):
    """json.dumps of a symbolic string: '"' ++ escape(s) ++ '"' with the escaping an uninterpreted function (identity on
    printable ASCII without the quote and the backslash; a few non-trivial values for counterexample refinement)."""
    if not ensure_ascii:
        raise Unsupported("json.dumps(ensure_ascii=False) of a symbolic string")
    E().cf_apps.append(("jsonesc", s.e))
    return SymStr(z3.Concat(z3.StringVal('"'), JSON_ESC(s.e), z3.StringVal('"')))


def ascii_islower_expr(t, bound):
    some, none_upper = [], []
    for k in range(bound):
        code = z3.StrToCode(z3.SubString(t, k, 1))
        some.append(z3.And(z3.Length(t) > k, code >= 97, code <= 122))
        none_upper.append(z3.Not(z3.And(z3.Length(t) > k, code >= 65, code <= 90)))
    return z3.And(z3.Or(some), *none_upper)


def ascii_lower_expr(t, bound):
    """char-level ASCII lower-casing of t for len(t) <= bound (used only to refine counterexamples)."""
    out = []
    for k in range(bound):
        ch = z3.SubString(t, k, 1)
        code = z3.StrToCode(ch)
        out.append(z3.If(z3.Length(t) > k, z3.If(z3.And(code >= 65, code <= 90), z3.StrFromCode(code + 32), ch),
                         z3.StringVal("")))
    return z3.Concat(*out) if len(out) > 1 else out[0]


# -------------------------------------------------------------------- containers
def sym_eq(a, b) -> bool:
    """Python-level == that forks when symbolic."""
    return bool(a == b)


class SymDict:
    """Insertion-ordered association list; key comparison forks on whole-key equality."""

    def __class_getitem__(cls, item):
        return cls

    def __init__(self, init=None, **kw):
        self._k = []
        self._v = []
        if init is not None:
            items = init.items() if hasattr(init, "items") else init
            for k, v in items:
                self[k] = v
        for k, v in kw.items():
            self[k] = v

    def _find(self, k):
        for i, kk in enumerate(self._k):
            if kk is k or sym_eq(kk, k):
                return i
        return -1

    def __setitem__(self, k, v):
        i = self._find(k)
        if i >= 0:
            self._v[i] = v
        else:
            self._k.append(k)
            self._v.append(v)

    def __getitem__(self, k):
        i = self._find(k)
        if i < 0:
            if hasattr(self, "__missing__"):
                return self.__missing__(k)
            raise KeyError(k)
        return self._v[i]

    def __delitem__(self, k):
        i = self._find(k)
        if i < 0:
            raise KeyError(k)
        del self._k[i], self._v[i]

    def get(self, k, default=None):
        i = self._find(k)
        return default if i < 0 else self._v[i]

    def pop(self, k, *default):
        i = self._find(k)
        if i < 0:
            if default:
                return default[0]
            raise KeyError(k)
        v = self._v[i]
        del self._k[i], self._v[i]
        return v

    def popitem(self):
        if not self._k:
            raise KeyError("popitem(): dictionary is empty")
        return self._k.pop(), self._v.pop()

    def setdefault(self, k, default=None):
        i = self._find(k)
        if i < 0:
            self._k.append(k)
            self._v.append(default)
            return default
        return self._v[i]

    def update(self, other=(), **kw):
        items = other.items() if hasattr(other, "items") else other
        for k, v in items:
            self[k] = v
        for k, v in kw.items():
            self[k] = v

    def clear(self):
        self._k, self._v = [], []

    def __contains__(self, k): return self._find(k) >= 0
    def __iter__(self): return iter(list(self._k))
    def __reversed__(self): return iter(list(reversed(self._k)))
    def __len__(self): return len(self._k)
    def __bool__(self): return bool(self._k)
    def keys(self): return SymKeys(self)
    def values(self): return list(self._v)
    def items(self): return list(zip(self._k, self._v))
    def copy(self): return type(self)(self.items()) if type(self) is SymDict else SymDict(self.items())

    def __or__(self, o):
        r = SymDict(self.items())
        r.update(o)
        return r

    def __ior__(self, o):
        self.update(o)
        return self

    def __eq__(self, o):
        if isinstance(o, dict):
            o = SymDict(o.items())
        if not isinstance(o, SymDict) or len(o) != len(self):
            return False
        for k, v in self.items():
            i = o._find(k)
            if i < 0 or not sym_eq(o._v[i], v):
                return False
        return True

    def __ne__(self, o):
        return not self.__eq__(o)

    __hash__ = None

    def __repr__(self):
        return "SymDict(%r)" % (self.items(),)


class SymKeys:
    """dict.keys() view: iterable, sized, set-like."""

    def __init__(self, d):
        self._d = d

    def __iter__(self): return iter(list(self._d._k))
    def __len__(self): return len(self._d._k)
    def __contains__(self, k): return self._d._find(k) >= 0
    def __getitem__(self, i): return list(self._d._k)[i]
    def __and__(self, o): return SymSet(self).intersection(o)
    def __or__(self, o): return SymSet(self).union(o)
    def __sub__(self, o): return SymSet(self).difference(o)
    def __eq__(self, o): return SymSet(self) == (o if isinstance(o, SymSet) else SymSet(o))
    def __repr__(self): return "SymKeys(%r)" % (self._d._k,)
    __hash__ = None


class SymDefaultDict(SymDict):
    def __init__(self, factory=None, init=None):
        self.default_factory = factory
        super().__init__(init)

    def __missing__(self, k):
        if self.default_factory is None:
            raise KeyError(k)
        v = self.default_factory()
        self._k.append(k)
        self._v.append(v)
        return v

    def copy(self):
        return SymDefaultDict(self.default_factory, self.items())


class SymSet:
    def __class_getitem__(cls, item):
        return cls

    def __init__(self, it=()):
        self._e = []
        for x in it:
            self.add(x)

    def add(self, x):
        if x not in self:
            self._e.append(x)

    def discard(self, x):
        for i, y in enumerate(self._e):
            if y is x or sym_eq(y, x):
                del self._e[i]
                return

    def remove(self, x):
        n = len(self._e)
        self.discard(x)
        if len(self._e) == n:
            raise KeyError(x)

    def pop(self):
        raise Unsupported("set.pop(): arbitrary element order")

    def __contains__(self, x):
        for y in self._e:
            if y is x or sym_eq(y, x):
                return True
        return False

    def update(self, *its):
        for it in its:
            for x in it:
                self.add(x)

    def union(self, *its):
        r = SymSet(self._e)
        r.update(*its)
        return r

    def intersection(self, *its):
        r = SymSet()
        others = [it if isinstance(it, SymSet) else SymSet(it) for it in its]
        for x in self._e:
            if all(x in o for o in others):
                r._e.append(x)
        return r

    def difference(self, *its):
        others = [it if isinstance(it, SymSet) else SymSet(it) for it in its]
        r = SymSet()
        for x in self._e:
            if not any(x in o for o in others):
                r._e.append(x)
        return r

    def symmetric_difference(self, o):
        o = o if isinstance(o, SymSet) else SymSet(o)
        return self.difference(o).union(o.difference(self))

    def issubset(self, o):
        o = o if isinstance(o, SymSet) else SymSet(o)
        return all(x in o for x in self._e)

    def issuperset(self, o):
        return all(x in self for x in o)

    def isdisjoint(self, o):
        return not any(x in self for x in o)

    def copy(self):
        return SymSet(self._e)

    def __or__(self, o): return self.union(o)
    def __and__(self, o): return self.intersection(o)
    def __sub__(self, o): return self.difference(o)
    def __xor__(self, o): return self.symmetric_difference(o)
    def __le__(self, o): return self.issubset(o)
    def __ge__(self, o): return self.issuperset(o)

    def __ior__(self, o):
        self.update(o)
        return self

    def __iter__(self):
        # A real set iterates in hash order.  Iteration order of a symbolic set is the insertion
        # order; consumers that depend on order (other than through sorted()) are outside the model.
        return iter(list(self._e))

    def __len__(self): return len(self._e)
    def __bool__(self): return bool(self._e)

    def __eq__(self, o):
        if isinstance(o, (set, frozenset)):
            o = SymSet(o)
        if not isinstance(o, SymSet):
            return False
        return len(self) == len(o) and self.issubset(o)

    def __ne__(self, o):
        return not self.__eq__(o)

    __hash__ = None

    def __repr__(self):
        return "SymSet(%r)" % (self._e,)


# -------------------------------------------------------------------- builtins for rewritten modules
def sym_len(x):
    if isinstance(x, SymStr):
        return x.sym_len()
    return len(x)


_real_isinstance = isinstance


def sym_isinstance(x, t):
    ts = t if _real_isinstance(t, tuple) else (t,)
    out = []
    for y in ts:
        if y is sym_str or y is str:
            if _real_isinstance(x, SymStr):
                return True
            out.append(str)
        elif y is dict or y is SymDict:
            if _real_isinstance(x, SymDict):
                return True
            out.append(dict)
        elif y is set or y is SymSet:
            if _real_isinstance(x, SymSet):
                return True
            out.append(set)
        elif y is sym_float:
            out.append(float)
        else:
            out.append(y)
    try:
        return _real_isinstance(x, tuple(out))
    except TypeError:
        return False


class _StrType:
    """Stands for the builtin `str` inside rewritten modules: callable like str(), and `str.method` is an
    unbound method that dispatches on its first argument (proxy or real string)."""

    def __call__(self, x="", *a, **k):
        if isinstance(x, SymStr):
            return x
        if hasattr(type(x), "__sym_str__"):
            return x.__sym_str__()
        return str(x, *a, **k)

    def __getattr__(self, name):
        if name.startswith("__"):
            return getattr(str, name)

        def unbound(self_, *a, **k):
            return getattr(self_, name)(*a, **k)
        unbound.__name__ = name
        return unbound

    def __instancecheck__(self, x):
        return isinstance(x, (str, SymStr))

    def __repr__(self):
        return "<class 'str'>"

    def __eq__(self, o):
        return o is self or o is str

    def __hash__(self):
        return hash(str)


sym_str = _StrType()


def sym_fmt(*parts):
    out = None
    for p in parts:
        p = sym_str(p) if not is_strlike(p) else p
        out = p if out is None else out + p
    return "" if out is None else out


def sym_join(sep, it):
    if not is_strlike(sep):
        return sep.join(it)
    out = None
    for x in it:
        if not is_strlike(x):
            raise TypeError("sequence item: expected str instance")
        out = x if out is None else out + sep + x
    return "" if out is None else out


def sym_in(a, b):
    """a in b"""
    if isinstance(b, str) and isinstance(a, SymStr):
        return bool(SymBool(z3.Contains(z3.StringVal(b), a.e)))
    if isinstance(b, (dict, set, frozenset)) and _has_sym(a):
        # a real hashed container queried with a symbolic key: compare by value
        for k in b:
            if sym_eq(k, a):
                return True
        return False
    return a in b


def _has_sym(a):
    if isinstance(a, (SymStr, SymInt, SymBool)):
        return True
    if isinstance(a, tuple):
        return any(_has_sym(x) for x in a)
    return False


H_STR = z3.Function("H_str", z3.StringSort(), z3.IntSort())


def sym_hash(x):
    if isinstance(x, SymStr):
        return SymInt(H_STR(x.e))
    if isinstance(x, tuple) and _has_sym(x):
        hs = [_i(sym_hash(y)) if isinstance(y, (SymStr, tuple)) else (H_STR(z3.StringVal(y)) if isinstance(y, str) else z3.IntVal(hash(y) % 1000003))
              for y in x]
        f = z3.Function(f"H_tup{len(hs)}", *([z3.IntSort()] * (len(hs) + 1)))
        return SymInt(f(*hs))
    if x is None:
        return hash(None)
    th = getattr(type(x), "__hash__", None)
    if th is None:
        raise TypeError(f"unhashable type: '{type(x).__name__}'")
    return th(x)


def sym_print(*args, sep=" ", end="\n", file=None, flush=False):
    """print() inside rewritten modules: to an in-memory file it records one structured line."""
    if file is not None and hasattr(file, "print_line"):
        file.print_line([a if is_strlike(a) else sym_str(a) for a in args], sep, end)
        return
    if any(_has_sym(a) for a in args):
        return      # printing symbolic values to a real stream: nothing to observe
    print(*args, sep=sep, end=end, file=file, flush=flush)


def sym_sorted(it, *, key=None, reverse=False):
    return sorted(it, key=key, reverse=reverse)


def sym_min(*a, **k):
    return min(*a, **k)


def sym_bool(x=False):
    return bool(x)


def sym_int(x=0, *a):
    if isinstance(x, SymInt):
        return x
    if isinstance(x, (SymStr, SymBool)):
        raise Unsupported("int() of a symbolic value")
    return int(x, *a)


def sym_ord(x):
    if isinstance(x, SymStr):
        return SymInt(z3.StrToCode(x.e))
    return ord(x)


def sym_any(it):
    for x in it:
        if x:
            return True
    return False


def sym_all(it):
    for x in it:
        if not x:
            return False
    return True
