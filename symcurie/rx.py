"""Python `re` pattern -> z3 regular expression (membership semantics).

Patterns are parsed with CPython's own parser (re._parser); the \\s, \\d, \\w classes are tabulated from
the running interpreter's `re` over z3's alphabet (code points 0..0x2FFFF without surrogates), so
`[^\\s]` means exactly what CPython means.  Anything outside the translated subset (back-references,
look-around, inner anchors, flags) raises Unsupported.
"""
from __future__ import annotations

import re
import re._constants as sc_
import re._parser as sp

import z3

from .core import ANYCHAR, ANYSTR, RE_SORT, SymBool, SymStr, Unsupported, _s, E, z3str_to_py

MAXCP = 0x2FFFF
PY_MAXCP = 0x10FFFF


def _ranges(pred, lo=0, hi=MAXCP):
    out, start = [], None
    for cp in range(lo, hi + 1):
        ok = pred(chr(cp))
        if ok and start is None:
            start = cp
        if not ok and start is not None:
            out.append((start, cp - 1))
            start = None
    if start is not None:
        out.append((start, hi))
    return out


_cat_cache = {}
_CATPAT = {sc_.CATEGORY_SPACE: r"\s", sc_.CATEGORY_DIGIT: r"\d", sc_.CATEGORY_WORD: r"\w"}
_NEGCAT = {sc_.CATEGORY_NOT_SPACE: sc_.CATEGORY_SPACE, sc_.CATEGORY_NOT_DIGIT: sc_.CATEGORY_DIGIT,
           sc_.CATEGORY_NOT_WORD: sc_.CATEGORY_WORD}
tail_checked = []   # classes for which the "constant beyond U+2FFFF" side condition was checked and holds
tail_inexact = []   # classes for which it fails: claim restricted to code points <= U+2FFFF


_ASCII_CATS = {sc_.CATEGORY_SPACE: [(9, 13), (32, 32)], sc_.CATEGORY_DIGIT: [(48, 57)],
               sc_.CATEGORY_WORD: [(48, 57), (65, 90), (95, 95), (97, 122)]}
ASCII_MODE = [False]


def cat_ranges(cat):
    if ASCII_MODE[0]:
        return list(_ASCII_CATS[cat])      # re.ASCII: \s, \d, \w are the ASCII classes
    if cat not in _cat_cache:
        rx = re.compile(_CATPAT[cat])
        rs = _ranges(lambda ch: rx.fullmatch(ch) is not None)
        # side condition (DESIGN section 8): the class is constant on U+30000..U+10FFFF and equal to
        # its value at U+2FFFF, so the code points z3 cannot represent behave like U+2FFFF.
        at_top = rx.fullmatch(chr(MAXCP)) is not None
        for cp in range(MAXCP + 1, PY_MAXCP + 1):
            if (rx.fullmatch(chr(cp)) is not None) != at_top:
                # the class is not constant beyond z3's alphabet: the translation stays exact for code points up to
                # U+2FFFF, strings with higher code points are outside the claim for patterns using this class
                tail_inexact.append(f"{_CATPAT[cat]} (first difference at U+{cp:X})")
                break
        else:
            tail_checked.append(_CATPAT[cat])
        _cat_cache[cat] = rs
    return _cat_cache[cat]


IGNORE_MODE = [0]      # re.IGNORECASE (with the other flags in force) while a pattern is being translated
_tab_cache = {}


def tabulated(op, av):
    """Code points a single LITERAL / NOT_LITERAL / IN item accepts under the flags in force, tabulated from the running
    interpreter (CPython's case-insensitive matching has its own notion of equivalent characters, e.g. KELVIN SIGN ~ k)."""
    import re._compiler as scmp
    flags = IGNORE_MODE[0]
    key = (op, repr(av), flags)
    if key not in _tab_cache:
        st = sp.State()
        st.flags = flags
        one = scmp.compile(sp.SubPattern(st, [(op, av)]), flags)
        rs = _ranges(lambda ch: one.fullmatch(ch) is not None)
        at_top = one.fullmatch(chr(MAXCP)) is not None
        for cp in range(MAXCP + 1, PY_MAXCP + 1):
            if (one.fullmatch(chr(cp)) is not None) != at_top:
                tail_inexact.append(f"case-insensitive item {op} {av!r} (first difference at U+{cp:X})")
                break
        else:
            tail_checked.append(f"case-insensitive item {op} {str(av)[:40]}")
        _tab_cache[key] = rs
    return _tab_cache[key]


def rng(lo, hi):
    return z3.Range(chr(lo), chr(hi)) if lo != hi else z3.Re(chr(lo))


def union(rs):
    rs = list(rs)
    if not rs:
        return z3.Empty(RE_SORT)
    return rs[0] if len(rs) == 1 else z3.Union(*rs)


def normalize(rs):
    out = []
    for lo, hi in sorted(rs):
        if out and lo <= out[-1][1] + 1:
            out[-1] = (out[-1][0], max(out[-1][1], hi))
        else:
            out.append((lo, hi))
    return out


def complement(rs):
    out, prev = [], 0
    for lo, hi in normalize(rs):
        if lo > prev:
            out.append((prev, lo - 1))
        prev = hi + 1
    if prev <= MAXCP:
        out.append((prev, MAXCP))
    return out


def set_ranges(items):
    neg, rs = False, []
    for op, av in items:
        if op == sc_.NEGATE:
            neg = True
        elif op == sc_.LITERAL:
            rs.append((av, av))
        elif op == sc_.RANGE:
            rs.append(tuple(av))
        elif op == sc_.CATEGORY:
            if av in _NEGCAT:
                rs += complement(cat_ranges(_NEGCAT[av]))
            elif av in _CATPAT:
                rs += cat_ranges(av)
            else:
                raise Unsupported(f"regex category {av}")
        else:
            raise Unsupported(f"regex set item {op}")
    rs = normalize(rs)
    if any(hi > MAXCP for _, hi in rs):
        raise Unsupported("regex literal beyond z3's alphabet")
    return complement(rs) if neg else rs


def tr(seq):
    parts = []
    for op, av in seq:
        if IGNORE_MODE[0] and op in (sc_.LITERAL, sc_.NOT_LITERAL, sc_.IN):
            parts.append(union(rng(a, b) for a, b in tabulated(op, av)))
        elif op == sc_.LITERAL:
            parts.append(z3.Re(chr(av)))
        elif op == sc_.NOT_LITERAL:
            parts.append(union(rng(a, b) for a, b in complement([(av, av)])))
        elif op == sc_.ANY:
            parts.append(union(rng(a, b) for a, b in complement([(10, 10)])))
        elif op == sc_.IN:
            parts.append(union(rng(a, b) for a, b in set_ranges(av)))
        elif op == sc_.BRANCH:
            parts.append(union(tr(alt) for alt in av[1]))
        elif op == sc_.SUBPATTERN:
            group, add_flags, del_flags, sub = av
            if add_flags or del_flags:
                raise Unsupported("inline regex flags")
            parts.append(tr(sub))
        elif op in (sc_.MAX_REPEAT, sc_.MIN_REPEAT, getattr(sc_, "POSSESSIVE_REPEAT", None)):
            lo, hi, sub = av
            r = tr(sub)
            if hi == sc_.MAXREPEAT:
                parts.append(z3.Concat(*([r] * lo), z3.Star(r)) if lo else z3.Star(r))
            elif hi == 0:
                parts.append(z3.Re(""))     # z3.Loop would read hi == 0 as "unbounded"
            else:
                parts.append(z3.Loop(r, lo, hi))
        elif op == sc_.CATEGORY:
            parts.append(union(rng(a, b) for a, b in set_ranges([(op, av)])))
        elif op == sc_.AT:
            raise Unsupported("anchor inside a pattern")
        else:
            raise Unsupported(f"regex construct {op}")
    if not parts:
        return z3.Re("")
    return parts[0] if len(parts) == 1 else z3.Concat(*parts)


def compile_lang(pattern: str, mode="match", flags=0):
    """z3 regex R such that re.<mode>(pattern, s) is not None  <=>  s in R."""
    if flags & ~(re.ASCII | re.UNICODE | re.IGNORECASE):
        raise Unsupported("regex flags other than re.ASCII / re.IGNORECASE")
    p = sp.parse(pattern, flags)
    if p.state.flags & ~(re.UNICODE | re.ASCII | re.IGNORECASE):
        raise Unsupported("regex flags in pattern")
    ASCII_MODE[0] = bool(p.state.flags & re.ASCII)
    IGNORE_MODE[0] = int(p.state.flags) if p.state.flags & re.IGNORECASE else 0
    try:
        return _compile_seq(list(p), mode)
    finally:
        ASCII_MODE[0] = False
        IGNORE_MODE[0] = 0


def _compile_seq(seq, mode):
    begin = False
    if seq and seq[0] in ((sc_.AT, sc_.AT_BEGINNING), (sc_.AT, sc_.AT_BEGINNING_STRING)):
        seq = seq[1:]
        begin = True
    dollar = endz = False
    if seq and seq[-1] == (sc_.AT, sc_.AT_END):
        seq, dollar = seq[:-1], True
    elif seq and seq[-1] == (sc_.AT, sc_.AT_END_STRING):
        seq, endz = seq[:-1], True
    r = tr(seq)
    if dollar:
        r = z3.Concat(r, z3.Option(z3.Re("\n")))
    elif not (endz or mode == "fullmatch"):
        r = z3.Concat(r, ANYSTR)
    if mode == "fullmatch" and dollar:
        # fullmatch with a trailing `$`: the whole string must be consumed; `$` is zero-width,
        # so the optional newline cannot be consumed by it.
        r = tr(seq)
    if mode == "search" and not begin:
        r = z3.Concat(ANYSTR, r)
    return r


class _Match:
    """A truthy match object; groups are not modelled."""

    def __bool__(self):
        return True

    def group(self, *a):
        raise Unsupported("match.group on a symbolic subject")

    groups = span = start = end = groupdict = group


class SymPattern:
    def __init__(self, pattern, flags=0):
        if isinstance(pattern, SymStr):
            pe = E().norm(pattern.e)
            if not z3.is_string_value(pe):
                raise Unsupported("symbolic regex pattern")
            pattern = z3str_to_py(pe)
        self.pattern = pattern
        self.flags = flags
        self._real = re.compile(pattern, flags)
        self._lang = {}

    def _go(self, mode, s):
        if not isinstance(s, SymStr):
            return getattr(self._real, mode)(s)
        if mode not in self._lang:
            self._lang[mode] = compile_lang(self.pattern, mode, self.flags)
        if E().branch(z3.InRe(s.e, self._lang[mode])):
            return _Match()
        return None

    def match(self, s): return self._go("match", s)
    def fullmatch(self, s): return self._go("fullmatch", s)
    def search(self, s): return self._go("search", s)

    def __getattr__(self, k):
        return getattr(self._real, k)


def _modfn(mode):
    def f(pattern, s, flags=0):
        return getattr(SymPattern(pattern, flags), mode)(s)
    return f


def make_re_module():
    import types
    m = types.ModuleType("re")
    m.__dict__.update({k: getattr(re, k) for k in dir(re) if not k.startswith("__")})
    m.compile = SymPattern
    m.match = _modfn("match")
    m.fullmatch = _modfn("fullmatch")
    m.search = _modfn("search")
    return m
