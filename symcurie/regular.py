"""Regular over-approximation of a path condition ("regular lemma").

For an obligation or branch condition of the form  t in R  (t a concatenation of string variables and
constants, R a regular expression) the constraints of the path condition that speak about t as a whole or
about a single variable occurring once in t are collected as regular languages; constraints that cannot be
expressed are dropped.  The resulting language L over-approximates the set of values t can take on this
path, so  L subseteq R  (a pure regular-expression query on one fresh variable, decided in milliseconds and
without a length bound) proves  t in R  on the path.  It is only ever used to *prove* (unsat); a failed
attempt falls back to the ordinary solver portfolio.
"""
from __future__ import annotations

import z3

from .core import ANYCHAR, ANYSTR, RE_SORT, flatten, z3str_to_py


def _conjuncts(e, out):
    if z3.is_and(e):
        for c in e.children():
            _conjuncts(c, out)
    elif z3.is_not(e) and z3.is_or(e.arg(0)):
        for c in e.arg(0).children():
            _conjuncts(z3.simplify(z3.Not(c)), out)
    else:
        out.append(e)


def _loop(r, lo, hi):
    """z3.Loop treats hi == 0 as 'unbounded'; spell the exact-zero case out."""
    if hi == 0:
        return z3.Re("")
    return z3.Loop(r, lo, hi)


def _is_const_str(e):
    return z3.is_string_value(e)


def _int_const(e):
    return e.as_long() if z3.is_int_value(e) else None


def _const_around_var(e):
    """e = [const] ++ variable ++ [const] (at least one constant) -> (c1, var, c2) else None"""
    parts = flatten(e)
    vars_ = [p for p in parts if not z3.is_string_value(p)]
    if len(vars_) != 1 or len(parts) == 1 or not (z3.is_const(vars_[0]) and vars_[0].decl().kind() == z3.Z3_OP_UNINTERPRETED):
        return None
    i = [k for k, p in enumerate(parts) if not z3.is_string_value(p)][0]
    c1 = "".join(z3str_to_py(p) for p in parts[:i])
    c2 = "".join(z3str_to_py(p) for p in parts[i + 1:])
    return c1, vars_[0], c2


def _contains_quotient(c1, c2, s):
    """regex R with:  s occurs in c1 ++ v ++ c2   <=>   v in R"""
    if s in c1 or s in c2:
        return ANYSTR
    alts = [z3.Concat(ANYSTR, z3.Re(s), ANYSTR)]
    n = len(s)
    for k in range(1, n):                       # occurrence starting in c1, ending in v
        if c1.endswith(s[:k]):
            alts.append(z3.Concat(z3.Re(s[k:]), ANYSTR))
    for k in range(1, n):                       # starting in v, ending in c2
        if c2.startswith(s[k:]):
            alts.append(z3.Concat(ANYSTR, z3.Re(s[:k])))
    for i in range(1, n):                       # starting in c1, covering v entirely, ending in c2
        for j in range(i, n):
            if c1.endswith(s[:i]) and c2.startswith(s[j:]):
                alts.append(z3.Re(s[i:j]))
    return alts[0] if len(alts) == 1 else z3.Union(*alts)


def _literal(lit):
    """-> (subject, regex) for a literal that constrains one string term regularly, else None."""
    neg = False
    if z3.is_not(lit):
        neg, lit = True, lit.arg(0)
    if z3.is_or(lit):
        # a disjunction of regular literals about the same term is their union
        subs = [_literal(c) for c in lit.children()]
        if subs and all(x is not None for x in subs) and all(x[0].eq(subs[0][0]) for x in subs):
            rx = z3.Union(*[x[1] for x in subs]) if len(subs) > 1 else subs[0][1]
            return subs[0][0], (z3.Complement(rx) if neg else rx)
        return None
    subj = rx = None
    k = lit.decl().kind() if z3.is_app(lit) else None
    if k == z3.Z3_OP_SEQ_IN_RE:
        subj, rx = lit.arg(0), lit.arg(1)
    elif k == z3.Z3_OP_SEQ_CONTAINS and _is_const_str(lit.arg(1)):
        subj, rx = lit.arg(0), z3.Concat(ANYSTR, z3.Re(z3str_to_py(lit.arg(1))), ANYSTR)
        around = _const_around_var(subj)
        if around is not None:
            # Contains(c1 ++ v ++ c2, s) as a regular constraint on v alone
            subj, rx = around[1], _contains_quotient(around[0], around[2], z3str_to_py(lit.arg(1)))
    elif k == z3.Z3_OP_SEQ_PREFIX and _is_const_str(lit.arg(0)):
        subj, rx = lit.arg(1), z3.Concat(z3.Re(z3str_to_py(lit.arg(0))), ANYSTR)
    elif k == z3.Z3_OP_SEQ_SUFFIX and _is_const_str(lit.arg(0)):
        subj, rx = lit.arg(1), z3.Concat(ANYSTR, z3.Re(z3str_to_py(lit.arg(0))))
    elif k == z3.Z3_OP_EQ and lit.arg(0).sort() == z3.StringSort():
        a, b = lit.arg(0), lit.arg(1)
        if _is_const_str(b):
            subj, rx = a, z3.Re(z3str_to_py(b))
        elif _is_const_str(a):
            subj, rx = b, z3.Re(z3str_to_py(a))
    elif k in (z3.Z3_OP_LE, z3.Z3_OP_GE, z3.Z3_OP_EQ) and lit.arg(0).sort() == z3.IntSort():
        a, b = lit.arg(0), lit.arg(1)
        if z3.is_app_of(a, z3.Z3_OP_SEQ_LENGTH) and _int_const(b) is not None:
            n = max(_int_const(b), 0)
            subj = a.arg(0)
            if k == z3.Z3_OP_LE:
                rx = _loop(ANYCHAR, 0, n) if _int_const(b) >= 0 else z3.Empty(RE_SORT)
            elif k == z3.Z3_OP_GE:
                rx = z3.Concat(_loop(ANYCHAR, n, n), ANYSTR) if n else ANYSTR
            else:
                rx = _loop(ANYCHAR, n, n) if _int_const(b) >= 0 else z3.Empty(RE_SORT)
    if subj is None:
        return None
    return subj, (z3.Complement(rx) if neg else rx)


def path_language(eng, target, extra=None):
    """extra: {ast id of a variable: regex} additional per-variable constraint (a hypothesis being tested)."""
    t = eng.norm(target)
    parts = flatten(t)
    occ = {}
    for p in parts:
        if z3.is_const(p) and p.decl().kind() == z3.Z3_OP_UNINTERPRETED:
            occ[p.get_id()] = occ.get(p.get_id(), 0) + 1
    lits = []
    for c in eng.pc:
        _conjuncts(c, lits)
        n = eng.norm(c)
        if not n.eq(c):
            _conjuncts(n, lits)
    per_var, glob = {}, []
    for lit in lits:
        r = _literal(lit)
        if r is None:
            continue
        subj, rx = r
        sn = eng.norm(subj)
        if sn.eq(t):
            glob.append(rx)
        elif z3.is_const(sn) and occ.get(sn.get_id()) == 1:
            per_var.setdefault(sn.get_id(), []).append(rx)
    for vid, rx in (extra or {}).items():
        per_var.setdefault(vid, []).append(rx)
    pieces = []
    for p in parts:
        if z3.is_string_value(p):
            pieces.append(z3.Re(z3str_to_py(p)))
        elif p.get_id() in per_var:
            rs = per_var[p.get_id()]
            pieces.append(rs[0] if len(rs) == 1 else z3.Intersect(*rs))
        else:
            pieces.append(ANYSTR)
    lang = pieces[0] if len(pieces) == 1 else z3.Concat(*pieces)
    if glob:
        lang = z3.Intersect(lang, *glob)
    return lang


def _empty(eng, lang, timeout_ms):
    x = z3.String("__regular_lemma_x")
    s = z3.Solver()
    s.set("timeout", timeout_ms)
    s.add(z3.InRe(x, lang))
    eng.stats["regular_queries"] = eng.stats.get("regular_queries", 0) + 1
    if s.check() == z3.unsat:
        eng.stats["regular_proved"] = eng.stats.get("regular_proved", 0) + 1
        return True
    return False


def _hosts(eng, v):
    """Decomposed strings (targets of the engine's structural splits) in which variable v occurs exactly once."""
    out, seen = [], set()

    def consider(full):
        if full.get_id() in seen:
            return
        seen.add(full.get_id())
        parts = flatten(full)
        if sum(1 for p in parts if p.eq(v)) == 1 and len(parts) > 1:
            out.append(full)
    for var, _ in eng.subst:
        consider(eng.norm(var))
    # concatenations that the path condition constrains regularly (e.g. Contains(a ++ v ++ b, "const"))
    lits = []
    for c in eng.pc:
        _conjuncts(c, lits)
    for lit in lits:
        r = _literal(lit)
        if r is not None and not z3.is_const(r[0]):
            consider(eng.norm(r[0]))
    return out


def decide_literal(eng, cond, timeout_ms=3000):
    """For a literal that constrains one string term regularly (membership, contains / prefix / suffix of a constant,
    equality with a constant, constant length bounds): True if the path condition entails it, False if it entails its
    negation, None if the regular over-approximation decides neither.  A side is infeasible when the regular
    over-approximation of the term itself, or of a decomposed string the term is a part of, becomes empty."""
    r = _literal(cond)
    if r is None:
        return None
    t, R = r
    try:
        tn = eng.norm(t)
        lang = path_language(eng, tn)
        hosts = _hosts(eng, tn) if z3.is_const(tn) else []
        for side, rx in ((True, R), (False, z3.Complement(R))):
            if _empty(eng, z3.Intersect(lang, rx), timeout_ms):
                return not side
            for h in hosts:
                if _empty(eng, path_language(eng, h, {tn.get_id(): rx}), timeout_ms):
                    return not side
    except z3.Z3Exception:
        return None
    return None


def prove_membership(eng, cond, timeout_ms=5000):
    """cond: InRe(t, R) or Not(InRe(t, R)).  True if the regular lemma proves it on the current path."""
    want_in = True
    c = cond
    if z3.is_not(c):
        want_in, c = False, c.arg(0)
    if not z3.is_app_of(c, z3.Z3_OP_SEQ_IN_RE):
        return False
    t, R = c.arg(0), c.arg(1)
    try:
        lang = path_language(eng, t)
    except z3.Z3Exception:
        return False
    x = z3.String("__regular_lemma_x")
    s = z3.Solver()
    s.set("timeout", timeout_ms)
    s.add(z3.InRe(x, lang), z3.Not(z3.InRe(x, R)) if want_in else z3.InRe(x, R))
    eng.stats["regular_queries"] = eng.stats.get("regular_queries", 0) + 1
    if s.check() == z3.unsat:
        eng.stats["regular_proved"] = eng.stats.get("regular_proved", 0) + 1
        return True
    return False
