"""Regular over-approximation of a path condition ("regular lemma").

For an obligation or branch condition of the form  t in R  (t a concatenation of string variables and
constants, R a regular expression) the constraints of the path condition that speak about t as a whole or
about a single variable occurring once in t are collected as regular languages; constraints that cannot be
expressed are dropped.  The resulting language L over-approximates the set of values t can take on this
path, so  L subseteq R  (a pure regular-expression query on one fresh variable, decided in milliseconds and
without a length bound) proves  t in R  on the path.  It is only ever used to *prove* (unsat); a failed
attempt falls back to the ordinary solver portfolio.
"""
from __future__ import annotations

import z3

from .core import ANYCHAR, ANYSTR, RE_SORT, flatten, z3str_to_py


def _conjuncts(e, out):
    if z3.is_and(e):
        for c in e.children():
            _conjuncts(c, out)
    elif z3.is_not(e) and z3.is_or(e.arg(0)):
        for c in e.arg(0).children():
            _conjuncts(z3.simplify(z3.Not(c)), out)
    else:
        out.append(e)


def _loop(r, lo, hi):
    """z3.Loop treats hi == 0 as 'unbounded'; spell the exact-zero case out."""
    if hi == 0:
        return z3.Re("")
    return z3.Loop(r, lo, hi)


def _is_const_str(e):
    return z3.is_string_value(e)


def _int_const(e):
    return e.as_long() if z3.is_int_value(e) else None


def _const_around_var(e):
    """e = [const] ++ variable ++ [const] (at least one constant) -> (c1, var, c2) else None"""
    parts = flatten(e)
    vars_ = [p for p in parts if not z3.is_string_value(p)]
    if len(vars_) != 1 or len(parts) == 1 or not (z3.is_const(vars_[0]) and vars_[0].decl().kind() == z3.Z3_OP_UNINTERPRETED):
        return None
    i = [k for k, p in enumerate(parts) if not z3.is_string_value(p)][0]
    c1 = "".join(z3str_to_py(p) for p in parts[:i])
    c2 = "".join(z3str_to_py(p) for p in parts[i + 1:])
    return c1, vars_[0], c2


def _contains_quotient(c1, c2, s):
    """regex R with:  s occurs in c1 ++ v ++ c2   <=>   v in R"""
    if s in c1 or s in c2:
        return ANYSTR
    alts = [z3.Concat(ANYSTR, z3.Re(s), ANYSTR)]
    n = len(s)
    for k in range(1, n):                       # occurrence starting in c1, ending in v
        if c1.endswith(s[:k]):
            alts.append(z3.Concat(z3.Re(s[k:]), ANYSTR))
    for k in range(1, n):                       # starting in v, ending in c2
        if c2.startswith(s[k:]):
            alts.append(z3.Concat(ANYSTR, z3.Re(s[:k])))
    for i in range(1, n):                       # starting in c1, covering v entirely, ending in c2
        for j in range(i, n):
            if c1.endswith(s[:i]) and c2.startswith(s[j:]):
                alts.append(z3.Re(s[i:j]))
    return alts[0] if len(alts) == 1 else z3.Union(*alts)


def _literal(lit):
    """-> (subject, regex) for a literal that constrains one string term regularly, else None."""
    neg = False
    if z3.is_not(lit):
        neg, lit = True, lit.arg(0)
    if z3.is_or(lit):
        # a disjunction of regular literals about the same term is their union
        subs = [_literal(c) for c in lit.children()]
        if subs and all(x is not None for x in subs) and all(x[0].eq(subs[0][0]) for x in subs):
            rx = z3.Union(*[x[1] for x in subs]) if len(subs) > 1 else subs[0][1]
            return subs[0][0], (z3.Complement(rx) if neg else rx)
        return None
    subj = rx = None
    k = lit.decl().kind() if z3.is_app(lit) else None
    if k == z3.Z3_OP_SEQ_IN_RE:
        subj, rx = lit.arg(0), lit.arg(1)
    elif k == z3.Z3_OP_SEQ_CONTAINS and _is_const_str(lit.arg(1)):
        subj, rx = lit.arg(0), z3.Concat(ANYSTR, z3.Re(z3str_to_py(lit.arg(1))), ANYSTR)
        around = _const_around_var(subj)
        if around is not None:
            # Contains(c1 ++ v ++ c2, s) as a regular constraint on v alone
            subj, rx = around[1], _contains_quotient(around[0], around[2], z3str_to_py(lit.arg(1)))
    elif k == z3.Z3_OP_SEQ_PREFIX and _is_const_str(lit.arg(0)):
        subj, rx = lit.arg(1), z3.Concat(z3.Re(z3str_to_py(lit.arg(0))), ANYSTR)
    elif k == z3.Z3_OP_SEQ_SUFFIX and _is_const_str(lit.arg(0)):
        subj, rx = lit.arg(1), z3.Concat(ANYSTR, z3.Re(z3str_to_py(lit.arg(0))))
    elif k == z3.Z3_OP_EQ and lit.arg(0).sort() == z3.StringSort():
        a, b = lit.arg(0), lit.arg(1)
        if _is_const_str(b):
            subj, rx = a, z3.Re(z3str_to_py(b))
        elif _is_const_str(a):
            subj, rx = b, z3.Re(z3str_to_py(a))
    elif k in (z3.Z3_OP_LE, z3.Z3_OP_GE, z3.Z3_OP_EQ) and lit.arg(0).sort() == z3.IntSort():
        a, b = lit.arg(0), lit.arg(1)
        if z3.is_app_of(a, z3.Z3_OP_SEQ_LENGTH) and _int_const(b) is not None:
            n = max(_int_const(b), 0)
            subj = a.arg(0)
            if k == z3.Z3_OP_LE:
                rx = _loop(ANYCHAR, 0, n) if _int_const(b) >= 0 else z3.Empty(RE_SORT)
            elif k == z3.Z3_OP_GE:
                rx = z3.Concat(_loop(ANYCHAR, n, n), ANYSTR) if n else ANYSTR
            else:
                rx = _loop(ANYCHAR, n, n) if _int_const(b) >= 0 else z3.Empty(RE_SORT)
    if subj is None:
        return None
    return subj, (z3.Complement(rx) if neg else rx)


def path_language(eng, target, extra=None):
    """extra: {ast id of a variable: regex} additional per-variable constraint (a hypothesis being tested)."""
    t = eng.norm(target)
    parts = flatten(t)
    occ = {}
    for p in parts:
        if z3.is_const(p) and p.decl().kind() == z3.Z3_OP_UNINTERPRETED:
            occ[p.get_id()] = occ.get(p.get_id(), 0) + 1
    lits = []
    for c in eng.pc:
        _conjuncts(c, lits)
        n = eng.norm(c)
        if not n.eq(c):
            _conjuncts(n, lits)
    per_var, glob = {}, []
    for lit in lits:
        r = _literal(lit)
        if r is None:
            continue
        subj, rx = r
        sn = eng.norm(subj)
        if sn.eq(t):
            glob.append(rx)
        elif z3.is_const(sn) and occ.get(sn.get_id()) == 1:
            per_var.setdefault(sn.get_id(), []).append(rx)
    for vid, rx in (extra or {}).items():
        per_var.setdefault(vid, []).append(rx)
    pieces = []
    for p in parts:
        if z3.is_string_value(p):
            pieces.append(z3.Re(z3str_to_py(p)))
        elif p.get_id() in per_var:
            rs = per_var[p.get_id()]
            pieces.append(rs[0] if len(rs) == 1 else z3.Intersect(*rs))
        else:
            pieces.append(ANYSTR)
    lang = pieces[0] if len(pieces) == 1 else z3.Concat(*pieces)
    if glob:
        lang = z3.Intersect(lang, *glob)
    return lang


# ------------------------------------------------------------------------------ alphabet compression
_BASE = 0x4E00      # block i of the partition is represented by the code point _BASE + i


def _collect_cuts(r, cuts, seen):
    if r.get_id() in seen:
        return
    seen.add(r.get_id())
    k = r.decl().kind()
    if k == z3.Z3_OP_RE_RANGE:
        lo, hi = z3str_to_py(r.arg(0)), z3str_to_py(r.arg(1))
        if len(lo) != 1 or len(hi) != 1:
            raise ValueError("range over non-characters")
        cuts.add(ord(lo))
        cuts.add(ord(hi) + 1)
    elif k == z3.Z3_OP_SEQ_TO_RE:
        if not z3.is_string_value(r.arg(0)):
            raise ValueError("regex of a non-constant string")
        for ch in z3str_to_py(r.arg(0)):
            cuts.add(ord(ch))
            cuts.add(ord(ch) + 1)
    elif k in (z3.Z3_OP_RE_FULL_SET, z3.Z3_OP_RE_FULL_CHAR_SET, z3.Z3_OP_RE_EMPTY_SET):
        pass
    elif k in (z3.Z3_OP_RE_PLUS, z3.Z3_OP_RE_STAR, z3.Z3_OP_RE_OPTION, z3.Z3_OP_RE_CONCAT, z3.Z3_OP_RE_UNION, z3.Z3_OP_RE_LOOP,
               z3.Z3_OP_RE_INTERSECT, z3.Z3_OP_RE_COMPLEMENT, z3.Z3_OP_RE_DIFF):
        for c in r.children():
            _collect_cuts(c, cuts, seen)
    else:
        raise ValueError(f"regex operator {r.decl().name()} not handled by the alphabet compression")


def _map_regex(r, bounds, memo):
    """Rewrite r over the block alphabet: block i (code points bounds[i] .. bounds[i+1]-1) becomes the character _BASE+i."""
    i = r.get_id()
    if i in memo:
        return memo[i]
    import bisect
    nblocks = len(bounds) - 1
    allc = z3.Range(chr(_BASE), chr(_BASE + nblocks - 1)) if nblocks > 1 else z3.Re(chr(_BASE))
    k = r.decl().kind()

    def blk(cp):
        return bisect.bisect_right(bounds, cp) - 1
    if k == z3.Z3_OP_RE_RANGE:
        lo, hi = ord(z3str_to_py(r.arg(0))), ord(z3str_to_py(r.arg(1)))
        if lo > hi:
            out = z3.Empty(RE_SORT)
        else:
            a, b = blk(lo), blk(hi)
            out = z3.Range(chr(_BASE + a), chr(_BASE + b)) if a != b else z3.Re(chr(_BASE + a))
    elif k == z3.Z3_OP_SEQ_TO_RE:
        out = z3.Re("".join(chr(_BASE + blk(ord(ch))) for ch in z3str_to_py(r.arg(0))))
    elif k == z3.Z3_OP_RE_FULL_CHAR_SET:
        out = allc
    elif k == z3.Z3_OP_RE_FULL_SET:
        out = z3.Star(allc)
    elif k == z3.Z3_OP_RE_EMPTY_SET:
        out = r
    else:
        ch = [_map_regex(c, bounds, memo) for c in r.children()]
        if k == z3.Z3_OP_RE_PLUS:
            out = z3.Plus(ch[0])
        elif k == z3.Z3_OP_RE_STAR:
            out = z3.Star(ch[0])
        elif k == z3.Z3_OP_RE_OPTION:
            out = z3.Option(ch[0])
        elif k == z3.Z3_OP_RE_CONCAT:
            out = z3.Concat(*ch)
        elif k == z3.Z3_OP_RE_UNION:
            out = z3.Union(*ch)
        elif k == z3.Z3_OP_RE_INTERSECT:
            out = z3.Intersect(*ch)
        elif k == z3.Z3_OP_RE_DIFF:
            out = z3.Intersect(ch[0], z3.Intersect(z3.Complement(ch[1]), z3.Star(allc)))
        elif k == z3.Z3_OP_RE_COMPLEMENT:
            out = z3.Intersect(z3.Complement(ch[0]), z3.Star(allc))     # complement relative to the block alphabet
        elif k == z3.Z3_OP_RE_LOOP:
            ps = r.params()
            out = _loop(ch[0], ps[0], ps[1]) if len(ps) == 2 else z3.Concat(*([ch[0]] * ps[0]), z3.Star(ch[0])) if ps[0] else z3.Star(ch[0])
        else:
            raise ValueError("unreachable")
    memo[i] = out
    return out


def solve_regular(eng, memberships, timeout_ms):
    """Is there a string that satisfies all (regex, positive?) memberships?  -> ("sat", witness) / ("unsat", None) /
    ("unknown", None).  The query is solved over the *partition alphabet* induced by the character ranges that occur in
    the regexes (membership only depends on the block of each character), which keeps Unicode classes with hundreds of
    ranges cheap; the witness is mapped back to the lowest code point of each block."""
    eng.stats["regular_queries"] = eng.stats.get("regular_queries", 0) + 1
    x = z3.String("__regular_lemma_x")
    # first the query as it is (z3 handles complements and intersections natively), with part of the time budget
    s0 = z3.Solver()
    s0.set("timeout", max(500, timeout_ms // 2))
    s0.add(*[z3.InRe(x, r) if pos else z3.Not(z3.InRe(x, r)) for r, pos in memberships])
    r0 = s0.check()
    if r0 == z3.unsat:
        eng.stats["regular_proved"] = eng.stats.get("regular_proved", 0) + 1
        return "unsat", None
    if r0 == z3.sat:
        return "sat", z3str_to_py(s0.model().eval(x, model_completion=True))
    try:
        cuts, seen = {0, 0x30000}, set()
        for r, _ in memberships:
            _collect_cuts(r, cuts, seen)
        bounds = sorted(c for c in cuts if 0 <= c <= 0x30000)
        memo = {}
        nblocks = len(bounds) - 1
        allc = z3.Range(chr(_BASE), chr(_BASE + nblocks - 1)) if nblocks > 1 else z3.Re(chr(_BASE))
        cons = [z3.InRe(x, z3.Star(allc))]
        for r, pos in memberships:
            m = z3.InRe(x, _map_regex(r, bounds, memo))
            cons.append(m if pos else z3.Not(m))
        decode = lambda w: "".join(chr(bounds[ord(ch) - _BASE]) for ch in w)   # noqa: E731
    except (ValueError, z3.Z3Exception):
        cons = [z3.InRe(x, r) if pos else z3.Not(z3.InRe(x, r)) for r, pos in memberships]
        decode = lambda w: w   # noqa: E731
    s = z3.Solver()
    s.set("timeout", timeout_ms)
    s.add(*cons)
    res = s.check()
    if res == z3.unsat:
        eng.stats["regular_proved"] = eng.stats.get("regular_proved", 0) + 1
        return "unsat", None
    if res == z3.sat:
        return "sat", decode(z3str_to_py(s.model().eval(x, model_completion=True)))
    return "unknown", None


def _empty(eng, lang, timeout_ms):
    return solve_regular(eng, [(lang, True)], timeout_ms)[0] == "unsat"


def _hosts(eng, v):
    """Decomposed strings (targets of the engine's structural splits) in which variable v occurs exactly once."""
    out, seen, alive = [], set(), []

    def consider(full):
        if full.get_id() in seen:
            return
        seen.add(full.get_id())
        alive.append(full)          # AST ids are only unique among live terms
        parts = flatten(full)
        if sum(1 for p in parts if p.eq(v)) == 1 and len(parts) > 1:
            out.append(full)
    for var, _ in eng.subst:
        consider(eng.norm(var))
    # concatenations that the path condition constrains regularly (e.g. Contains(a ++ v ++ b, "const"))
    lits = []
    for c in eng.pc:
        _conjuncts(c, lits)
    for lit in lits:
        r = _literal(lit)
        if r is not None and not z3.is_const(r[0]):
            consider(eng.norm(r[0]))
    return out


def decide_literal(eng, cond, timeout_ms=3000):
    """For a literal that constrains one string term regularly (membership, contains / prefix / suffix of a constant,
    equality with a constant, constant length bounds): True if the path condition entails it, False if it entails its
    negation, None if the regular over-approximation decides neither.  A side is infeasible when the regular
    over-approximation of the term itself, or of a decomposed string the term is a part of, becomes empty."""
    r = _literal(cond)
    if r is None:
        return None
    t, R = r
    try:
        tn = eng.norm(t)
        lang = path_language(eng, tn)
        hosts = _hosts(eng, tn) if z3.is_const(tn) else []
        for side, rx in ((True, R), (False, z3.Complement(R))):
            if _empty(eng, z3.Intersect(lang, rx), timeout_ms):
                return not side
            for h in hosts:
                if _empty(eng, path_language(eng, h, {tn.get_id(): rx}), timeout_ms):
                    return not side
    except z3.Z3Exception:
        return None
    return None


def prove_membership(eng, cond, timeout_ms=5000):
    """cond: InRe(t, R) or Not(InRe(t, R)).  True if the regular lemma proves it on the current path."""
    want_in = True
    c = cond
    if z3.is_not(c):
        want_in, c = False, c.arg(0)
    if not z3.is_app_of(c, z3.Z3_OP_SEQ_IN_RE):
        return False
    t, R = c.arg(0), c.arg(1)
    try:
        lang = path_language(eng, t)
    except z3.Z3Exception:
        return False
    res, witness = solve_regular(eng, [(lang, True), (R, not want_in)], timeout_ms)
    if res == "unsat":
        return True
    if res == "sat":
        # a string of the over-approximated path language that violates the membership: a candidate counterexample
        eng.last_regular_witness = (t, witness)
    return False
