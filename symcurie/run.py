"""Runner: jobs -> process pool -> solver verdicts -> replay on the real stack -> evidence + exit code.

exit 0  every obligation of every explored path was discharged (unsat)
exit 1  a solver counterexample reproduced on the real code:  VIOLATION property=<id> replay=<path>
exit 2  INCONCLUSIVE (solver unknown, unmodelled construct, budget, stub/real disagreement, vacuity)
"""
from __future__ import annotations

import argparse
import concurrent.futures as cf
import importlib
import json
import multiprocessing as mp
import os
import sys
import time
import traceback
from pathlib import Path

ROOT = Path(__file__).resolve().parent.parent
EVID = Path(os.environ.get("SYMCURIE_EVIDENCE") or ROOT / "evidence")   # scratch override for development runs against a changed copy
KNOWN_FILE = ROOT / "known_findings.json"
PROPS = [f"C{n:02d}" for n in range(1, 21)]


def harness_module(pid):
    return importlib.import_module(f"symcurie.harness.{pid.lower()}")


def load_known(pid):
    if not KNOWN_FILE.exists():
        return []
    data = json.loads(KNOWN_FILE.read_text())
    return [f for f in data.get("findings", []) if f.get("property") == pid]


# ------------------------------------------------------------------------------- worker side
def _concrete_run(hm, job, inputs, known_active=()):
    from .core import ConcEngine
    from .loader import RealModules
    eng = ConcEngine(inputs, known_active=known_active)
    eng.mods = RealModules()
    eng.job = job
    fn = hm.build(job)
    try:
        out = eng.run(fn)
    except Exception as e:  # noqa: BLE001 - an unexpected exception on the real stack
        out = f"<exception:{type(e).__name__}:{e}>"
        eng.cex.append(dict(label=f"harness raised {type(e).__name__} on the real stack: {e}"))
    return out, [c["label"] for c in eng.cex], eng


def run_job(job):
    """Executed in a worker process: explore one (harness, shape[, trail prefix]) symbolically."""
    t0 = time.time()
    res = dict(job=job, status="ok", stats={}, outcomes={}, violations=[], nonrepro=[], diff_mismatch=[],
               samples=[], frontier=[], error=None, functions=[], stubs=[], nontrivial=0, diffs=0)
    try:
        import logging
        import warnings
        import z3  # noqa: F401
        logging.disable(logging.CRITICAL)
        warnings.simplefilter("ignore")
        from . import loader, stubs
        from .core import Budget, Engine, Unsupported
        loader.start_coverage()
        hm = harness_module(job["property"])
        eng = Engine(deadline=t0 + job.get("budget_s", 600), seed=job.get("seed", 0),
                     known_active=job.get("known_active", ()))
        eng.mods = loader.SymModules()
        eng.job = job
        eng.keep_paths = job.get("keep_paths", 3)
        for k, v in getattr(hm, "ENGINE_OPTS", {}).items():
            setattr(eng, k, v)
        fn = hm.build(job)
        def confirm(cexs):
            """Refine each new counterexample into a replayable model and replay it on the real stack.
            True (stop exploring) as soon as one reproduces; otherwise it is recorded and exploration goes on."""
            for c in cexs:
                tried = []
                if c.get("hint"):
                    # a witness of the regular over-approximation for the only string involved: try it first
                    inputs = {n: ("" if srt == "str" else 0 if srt == "int" else False) for n, srt in eng.inputs.items()}
                    inputs.update(c["hint"])
                    out, labels, _ = _concrete_run(hm, job, inputs, job.get("known_active", ()))
                    if labels:
                        res["violations"].append(dict(label=c["label"], observed=labels, inputs=inputs, outcome=str(out)))
                        return True
                for _ in range(4):
                    inputs = eng.concretize(c["pc"], c["neg"], c["cf_apps"], block=tried)
                    if inputs is None:
                        break
                    if not eng.last_concretize_refined:
                        tried.append(inputs)
                        continue
                    out, labels, _ = _concrete_run(hm, job, inputs, job.get("known_active", ()))
                    if labels:
                        res["violations"].append(dict(label=c["label"], observed=labels, inputs=inputs, outcome=str(out)))
                        return True
                    tried.append(inputs)
                res["nonrepro"].append(dict(label=c["label"], tried=tried[:2]))
                if len(res["nonrepro"]) >= 6:
                    return True     # too many unconfirmed counterexamples: stop, the job is inconclusive anyway
            return False
        try:
            eng.explore(fn, stop_on_cex=True, prefix=job.get("prefix"), frontier_depth=job.get("frontier_depth"),
                        slice_s=job.get("slice_s", 45), on_cex=confirm)
        except Unsupported as e:
            res["status"] = "inconclusive"
            res["error"] = "unsupported: " + " ".join(str(e).split())[:300]
        except Budget as e:
            res["status"] = "inconclusive"
            res["error"] = f"budget: {e}"
        res["stats"] = dict(eng.stats)
        res["outcomes"] = dict(eng.outcomes)
        res["frontier"] = eng.frontier
        res["known_seen"] = sorted(eng.known_seen)
        # ---- differential validation of explored paths: symbolic outcome == real-stack outcome
        for p in eng.path_log:
            eng.light = True
            try:
                inputs = eng.concretize(p["pc"], None, p["cf_apps"], pretty=bool(getattr(hm, "PRETTY_SAMPLES", False)))
            finally:
                eng.light = False
            if inputs is None or not eng.last_concretize_refined:
                continue    # no witness, or one that relies on an unrealistic interpretation of casefold
            out, labels, _ = _concrete_run(hm, job, inputs, job.get("known_active", ()))
            res["diffs"] += 1
            sample = dict(job=job["name"], inputs=inputs, outcome=str(p["outcome"]))
            if str(out) != str(p["outcome"]) or labels:
                if labels and not eng.cex:
                    # the real stack violates the property on a path the symbolic run judged fine
                    res["diff_mismatch"].append(dict(sample, real_outcome=str(out), real_labels=labels))
                elif str(out) != str(p["outcome"]) and not str(out).startswith("<precondition"):
                    res["diff_mismatch"].append(dict(sample, real_outcome=str(out), real_labels=labels))
            res["samples"].append(sample)
        res["functions"] = sorted(loader.ENTERED)
        res["stubs"] = sorted(stubs.USED)
        if hasattr(hm, "extra_evidence"):
            res["extra"] = hm.extra_evidence()
    except BaseException as e:  # noqa: BLE001
        res["status"] = "inconclusive"
        res["error"] = f"{type(e).__name__}: {e}\n{traceback.format_exc()[-1500:]}"
    res["wall_s"] = round(time.time() - t0, 2)
    return res


def _worker_init(parent_pid):
    """Workers must not outlive the coordinator (e.g. when the check is stopped from outside)."""
    import threading

    def watch():
        while True:
            time.sleep(2)
            if os.getppid() != parent_pid:
                os._exit(3)
    threading.Thread(target=watch, daemon=True).start()


# ------------------------------------------------------------------------------- coordinator side
def check(pid, tier, seed, only=None, workers=None, verbose=False):
    import logging
    import warnings
    logging.disable(logging.CRITICAL)
    warnings.simplefilter("ignore")
    t0 = time.time()
    hm = harness_module(pid)
    known = load_known(pid)
    lines = []
    # known findings: honoured only while their recorded witness still fails on the real code
    known_active = []
    for f in known:
        if f.get("status") != "known":
            continue
        job = dict(f["witness"]["job"], property=pid)
        out, labels, _ = _concrete_run(hm, job, f["witness"]["inputs"], ())
        if labels:
            known_active.append(f["predicate"])
            lines.append(f"KNOWN-FINDING: property={pid} {f['what']}")
    for ln in lines:
        print(ln, flush=True)

    jobs = []
    for j in hm.jobs(tier):
        j = dict(j)
        j.setdefault("property", pid)
        j.setdefault("seed", seed)
        j.setdefault("tier", tier)
        j["known_active"] = known_active
        if only and only not in j["name"]:
            continue
        jobs.append(j)
    nworkers = workers or min(16, os.cpu_count() or 4)
    results = []
    ctx = mp.get_context("spawn")
    nshard = [0]
    with cf.ProcessPoolExecutor(max_workers=nworkers, mp_context=ctx, initializer=_worker_init, initargs=(os.getpid(),)) as ex:
        pending = {}
        for j in jobs:
            if j.get("shard_depth"):
                fj = dict(j, frontier_depth=j["shard_depth"], name=j["name"] + "#frontier", keep_paths=2)
                pending[ex.submit(run_job, fj)] = fj
            else:
                pending[ex.submit(run_job, j)] = j
        while pending:
            done, _ = cf.wait(list(pending), return_when=cf.FIRST_COMPLETED)
            for fut in done:
                j = pending.pop(fut)
                try:
                    r = fut.result()
                except Exception as e:  # noqa: BLE001 - worker died
                    r = dict(job=j, status="inconclusive", error=f"worker failed: {e}", stats={}, outcomes={},
                             violations=[], nonrepro=[], diff_mismatch=[], samples=[], frontier=[], functions=[],
                             stubs=[], wall_s=0, diffs=0)
                results.append(r)
                if verbose:
                    print(f"  [{r['job']['name']}] {r['status']} paths={r['stats'].get('paths')} "
                          f"q={r['stats'].get('queries')} {r['wall_s']}s {r['outcomes']} {r.get('error') or ''}",
                          file=sys.stderr, flush=True)
                if r["frontier"] and r["status"] == "ok" and not r["violations"]:
                    base = j["name"].split("#")[0]
                    for pref in r["frontier"]:
                        nshard[0] += 1
                        # every fourth shard replays a path witness on the real stack (the replay costs about as much as
                        # exploring a dozen paths)
                        sj = dict(j, prefix=pref, frontier_depth=None, shard_depth=None, name=f"{base}#shard{nshard[0]}",
                                  keep_paths=1 if nshard[0] % 4 == 0 else 0)
                        pending[ex.submit(run_job, sj)] = sj

    # ---- aggregate
    EVID.mkdir(exist_ok=True)
    (EVID / "replay").mkdir(exist_ok=True)
    for old in (EVID / "replay").glob(f"{pid}-*.json"):
        old.unlink()
    violations, inconclusive = [], []
    agg = dict(paths=0, queries=0, solver_s=0.0, unknown=0, pruned=0, obligations=0, discharged=0, cvc5=0, model_hits=0,
               optimistic_forks=0)
    shapes = {}
    functions, stubs_used, samples = set(), set(), []
    outcomes_by_group = {}
    diffs = 0
    extra = {}
    for r in results:
        j = r["job"]
        base = j["name"].split("#")[0]
        sh = shapes.setdefault(base, dict(name=base, params=j.get("params"), paths=0, pruned=0, queries=0, solver_s=0.0,
                                          obligations=0, discharged=0, cvc5_fallbacks=0, unknown=0, outcomes={},
                                          shards=0, wall_s=0.0))
        st = r["stats"]
        for k in agg:
            agg[k] += st.get(k, 0)
        sh["paths"] += st.get("paths", 0)
        sh["pruned"] += st.get("pruned", 0)
        sh["queries"] += st.get("queries", 0)
        sh["solver_s"] = round(sh["solver_s"] + st.get("solver_s", 0.0), 2)
        sh["obligations"] += st.get("obligations", 0)
        sh["discharged"] += st.get("discharged", 0)
        sh["cvc5_fallbacks"] += st.get("cvc5", 0)
        sh["unknown"] += st.get("unknown", 0)
        sh["shards"] += 1
        sh["wall_s"] = round(sh["wall_s"] + r["wall_s"], 2)
        for o, n in r["outcomes"].items():
            sh["outcomes"][str(o)] = sh["outcomes"].get(str(o), 0) + n
            g = outcomes_by_group.setdefault(j.get("group", base), {})
            g[str(o)] = g.get(str(o), 0) + n
        functions.update(r["functions"])
        stubs_used.update(r["stubs"])
        samples += r["samples"][:2]
        diffs += r.get("diffs", 0)
        extra.update(r.get("extra") or {})
        if r["status"] != "ok":
            inconclusive.append(f"{j['name']}: {r['error']}")
        if r["stats"].get("truncated"):
            inconclusive.append(f"{j['name']}: {r['stats']['truncated']} path(s) abandoned at an unwinding bound of the string proxies "
                                f"(the code loops over an unbounded number of separator occurrences)")
        for v in r["violations"]:
            violations.append((j, v))
        for v in r["nonrepro"]:
            inconclusive.append(f"{j['name']}: counterexample '{v['label']}' did not reproduce on the real stack "
                                f"(stub or proxy disagreement): {json.dumps(v['tried'])[:400]}")
        for v in r["diff_mismatch"]:
            inconclusive.append(f"{j['name']}: symbolic and real outcome differ on a path witness: {json.dumps(v)[:600]}")
    # vacuity guard: every required outcome class reached by at least one path
    for j in jobs:
        need = j.get("expect_outcomes") or []
        got = outcomes_by_group.get(j.get("group", j["name"]), {})
        for o in need:
            if not any(k == o or k.startswith(o) for k in got) and not violations:
                inconclusive.append(f"{j['name']}: vacuity guard - no path reached outcome class '{o}' (got {sorted(got)})")
    replay_paths = []
    for n, (j, v) in enumerate(violations):
        p = EVID / "replay" / f"{pid}-{n}.json"
        jj = {k: j[k] for k in ("property", "name", "fn", "params") if k in j}
        p.write_text(json.dumps(dict(property=pid, job=jj, inputs=v["inputs"], label=v["label"], observed=v["observed"]),
                                indent=1, ensure_ascii=True))
        replay_paths.append(str(p))
    wall = round(time.time() - t0, 2)
    nontrivial = sum(n for sh in shapes.values() for o, n in sh["outcomes"].items())
    ev = dict(
        property_id=pid, tier=tier, seed=seed, level="other",
        coverage=dict(
            explanation=hm.EXPLANATION,
            technique="bounded symbolic execution of the real curies source (AST-rewritten, proxies over z3 strings); "
                      "each branch and each obligation decided by z3 5.1 / cvc5 1.0.3; counterexamples replayed on the real stack",
            functions_encoded=sorted(functions),
            shapes=sorted(shapes.values(), key=lambda s: s["name"]),
            bounds=hm.BOUNDS, outside_claim=hm.OUTSIDE, stubs_used=sorted(stubs_used),
            evaluations=agg["paths"], distinct_nontrivial=nontrivial,
            rule="one evaluation = one feasible execution path of the real code (distinct decision trail) over symbolic "
                 "inputs; non-trivial = the path completed (was not pruned by an assumption) and its obligations were "
                 "submitted to the solver; each such path stands for all concrete inputs satisfying its path condition",
            obligations=agg["obligations"], discharged=agg["discharged"], queries=agg["queries"],
            solver_s=round(agg["solver_s"], 2), solver_unknown=agg["unknown"], cvc5_fallbacks=agg["cvc5"],
            pruned_paths=agg["pruned"], traces_validated_against_impl=diffs,
            undecided_order_branches_followed_both_ways=agg["optimistic_forks"],
            samples=samples[:12] or [dict(note="no completed path")],
            exhaustive=not inconclusive and not violations,
            known_findings_active=known_active, inconclusive=inconclusive[:20], **extra),
        assumptions=hm.ASSUMPTIONS, wall_s=wall, violations=len(violations))
    (EVID / f"{pid}.json").write_text(json.dumps(ev, indent=1, ensure_ascii=True))
    if tier == "thorough":      # an extra copy, so that the last thorough run stays visible after the next quick run
        (EVID / "thorough").mkdir(exist_ok=True)
        (EVID / "thorough" / f"{pid}.json").write_text(json.dumps(ev, indent=1, ensure_ascii=True))
    for p, (j, v) in zip(replay_paths, violations):
        print(f"VIOLATION property={pid} replay={p}")
        print(f"  job={j['name']} label={v['label']} observed={v['observed']} inputs={json.dumps(v['inputs'])[:500]}")
    for m in inconclusive[:10]:
        print(f"INCONCLUSIVE property={pid} {m}")
    print(f"{pid} {tier}: jobs={len(results)} paths={agg['paths']} obligations={agg['obligations']} "
          f"discharged={agg['discharged']} queries={agg['queries']} solver_s={agg['solver_s']:.1f} "
          f"validated_on_real={diffs} wall={wall}s -> "
          + ("VIOLATION" if violations else "INCONCLUSIVE" if inconclusive else "HOLDS within bounds"), flush=True)
    if violations:
        return 1
    if inconclusive:
        return 2
    return 0


def replay(path):
    rec = json.loads(Path(path).read_text())
    pid = rec["property"]
    hm = harness_module(pid)
    job = dict(rec["job"], property=pid)
    out, labels, _ = _concrete_run(hm, job, rec["inputs"], ())
    print(f"replay {path}: outcome={out} violations={labels}")
    if labels:
        print(f"VIOLATION property={pid} replay={path}")
        return 1
    return 0


def main(argv=None):
    ap = argparse.ArgumentParser(prog="symcurie")
    sub = ap.add_subparsers(dest="cmd", required=True)
    c = sub.add_parser("check")
    c.add_argument("property")
    c.add_argument("--tier", default=None)
    c.add_argument("--only", default=None)
    c.add_argument("--workers", type=int, default=None)
    c.add_argument("-v", "--verbose", action="store_true")
    r = sub.add_parser("replay")
    r.add_argument("path")
    a = ap.parse_args(argv)
    # every scratch file of this run (solver inputs, the files the concrete mode writes and reads back) lives under one
    # directory that is removed when the run ends, whatever happened to the workers
    import shutil
    import tempfile
    root = tempfile.mkdtemp(prefix="symcurie-run-")
    os.environ["TMPDIR"] = root
    tempfile.tempdir = root
    try:
        if a.cmd == "check":
            tier = os.environ.get("VERIF_TIER") or a.tier or "quick"
            seed = int(os.environ.get("VERIF_SEED", "0") or 0)
            return check(a.property.upper(), tier, seed, a.only, a.workers, a.verbose)
        if a.cmd == "replay":
            return replay(a.path)
    finally:
        tempfile.tempdir = None
        shutil.rmtree(root, ignore_errors=True)


if __name__ == "__main__":
    sys.exit(main())
