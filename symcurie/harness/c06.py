"""C06 - standardisation is canonical, idempotent and meaning-preserving."""
from __future__ import annotations

import z3

from .common import And, Or, Q, T, _s, fixture, longest_match, mk_curie, no_match, owner_of_prefix, prefix_free, shape_jobs, substr_from, sym_eq, unknown_prefix

EXPLANATION = (
    "standardize_prefix, standardize_curie, standardize_uri (with parse_curie, parse_uri, format_curie, expand, compress) "
    "run on a symbolic strict converter. Oracles: standardize_prefix(x) = canonical prefix of the unique record owning x, "
    "else nothing; standardize_curie(P+d+I) = canon(P)+d+I; standardize_uri(u) = canonical URI prefix of the owner of the "
    "longest matching URI prefix ++ remainder. Laws: idempotence of standardize_prefix / standardize_curie, "
    "expand(standardize_curie(c)) = expand(c); on prefix-free maps standardize_uri idempotent and "
    "compress(standardize_uri(u)) = compress(u).")
BOUNDS = dict(records="<= 3", synonyms_per_side="<= 2", strings="unbounded, full z3 alphabet", delimiter="':' and symbolic")
OUTSIDE = ["more than 3 records", "CURIEs without the delimiter (C08)", "non-strict converters"]
ASSUMPTIONS = ["pytrie longest-prefix contract stub", "pydantic BaseModel stub (validator bodies real)",
               "strict converter precondition", "no CURIE prefix contains the delimiter"]

SHAPES = [
    ("prefix", [[1, 0], [1, 0]], False, Q), ("prefix", [[2, 0]], False, Q),
    ("curie", [[1, 1]], True, Q), ("curie", [[1, 0], [0, 1]], False, Q),
    ("uri", [[0, 1], [0, 1]], False, Q), ("uri", [[1, 1]], True, Q),
    ("uri_pf", [[0, 1], [0, 0]], False, Q), ("uri_pf", [[1, 1]], True, Q),
    ("uri", [[0, 0], [0, 0]], False, Q, dict(params=dict(built="grow"), shard=5)), ("curie", [[1, 0], [0, 0]], False, Q, dict(params=dict(built="grow"), shard=5)),
    ("uri", [[0, 1]], False, Q, dict(params=dict(built="used"))),
    ("prefix", [[1, 0]] * 3, False, T, dict(budget=900, shard=6)),
    ("curie", [[1, 1], [1, 1]], True, T, dict(budget=1200, shard=6)),
    ("uri", [[0, 1]] * 3, False, T, dict(budget=1800, shard=8)),
    ("uri_pf", [[0, 1], [0, 1]], True, T, dict(budget=1800, shard=6)),
    ("uri_pf", [[0, 0]] * 3, False, T, dict(budget=1800, shard=8)),
    ("prefix", [[2, 0], [2, 0]], False, T, dict(budget=1800, shard=8)),
    ("curie", [[1, 1]] * 3, False, T, dict(budget=3000, shard=10)),
    ("uri", [[0, 2], [0, 2]], True, T, dict(budget=3000, shard=10)),
    ("uri_pf", [[0, 1]] * 3, False, T, dict(budget=3000, shard=10)),
]


def jobs(tier):
    return shape_jobs(SHAPES, tier, {"prefix": ["known", "unknown"], "curie": ["known", "unknown"],
                                     "uri": ["match", "nomatch"], "uri_pf": ["match", "nomatch"]})


def build(job):
    fn, params = job["fn"], job["params"]

    def prefix(eng):
        recs, delim, c = fixture(eng, params)
        x = eng.var("x")
        sp = c.standardize_prefix(x)
        if sp is None:
            eng.check_holds(unknown_prefix(recs, _s(x)), "standardize_prefix gives nothing for a registered prefix/synonym")
            return "unknown"
        eng.check_holds(owner_of_prefix(recs, _s(x), lambda r: _s(sp) == _s(r.prefix)),
                        "standardize_prefix is not the canonical prefix of the record owning the input")
        again = c.standardize_prefix(sp)
        eng.expect(again is not None and sym_eq(again, sp), "standardize_prefix is not idempotent")
        return "known"

    def curie(eng):
        recs, delim, c = fixture(eng, params)
        cur, P, I = mk_curie(eng, delim)
        sc_ = c.standardize_curie(cur)
        if sc_ is None:
            eng.check_holds(unknown_prefix(recs, _s(P)), "standardize_curie gives nothing for a known prefix")
            return "unknown"
        eng.check_holds(owner_of_prefix(recs, _s(P), lambda r: _s(sc_) == z3.Concat(_s(r.prefix), _s(delim), _s(I))),
                        "standardize_curie does not rewrite exactly the prefix part to the canonical prefix")
        again = c.standardize_curie(sc_)
        eng.expect(again is not None and sym_eq(again, sc_), "standardize_curie is not idempotent")
        e1, e2 = c.expand(cur), c.expand(sc_)
        eng.expect(e1 is not None and e2 is not None and sym_eq(e1, e2), "standardize_curie(c) expands differently from c")
        return "known"

    def uri(eng):
        recs, delim, c = fixture(eng, params)
        if fn == "uri_pf":
            eng.assume(prefix_free(recs))
        u = eng.var("uri")
        q = _s(u)
        su = c.standardize_uri(u)
        if su is None:
            eng.check_holds(no_match(recs, q), "standardize_uri gives nothing although a registered URI prefix matches")
            return "nomatch"
        eng.check_holds(longest_match(recs, q, lambda up, r: _s(su) == z3.Concat(_s(r.uri_prefix), substr_from(q, z3.Length(up)))),
                        "standardize_uri is not canonical URI prefix of the longest match's owner ++ remainder")
        if fn == "uri_pf":
            again = c.standardize_uri(su)
            eng.expect(again is not None and sym_eq(again, su), "standardize_uri is not idempotent on a prefix-free map")
            c1, c2 = c.compress(u), c.compress(su)
            eng.expect(c1 is not None and c2 is not None and sym_eq(c1, c2),
                       "standardize_uri(u) compresses differently from u on a prefix-free map")
        return "match"
    return dict(prefix=prefix, curie=curie, uri=uri, uri_pf=uri)[fn]
