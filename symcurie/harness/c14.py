"""C14 - written contexts read back to the same converter (partially applicable: object level)."""
from __future__ import annotations

import os
import tempfile

import z3

from .common import And, Or, Q, T, _s, all_p, as_set_eq, assume_strict, mk_recs, shape_jobs, sym_eq

EXPLANATION = (
    "write_extended_prefix_map / _record_to_dict + load_extended_prefix_map, write_jsonld_context / _get_jsonld_context / "
    "_get_expanded_term + load_jsonld_context (both values of expand and include_synonyms, symbolic flags) and write_tsv "
    "(read back as a two-column prefix map) run on a symbolic strict converter with symbolic patterns; files are an in-memory "
    "table whose JSON documents round-trip values unchanged and whose TSV files are rows of cells. Oracle: the extended "
    "prefix map reproduces every record (prefix, URI prefix, both synonym sets, pattern - an empty pattern counts as no "
    "pattern); JSON-LD and TSV read back to the same canonical prefix map, JSON-LD with include_synonyms additionally maps "
    "every CURIE-prefix synonym (read back non-strictly, since the synonyms share their record's URI prefix). Omitted fields, "
    "wrong keys, dropped synonyms and wrong flag plumbing are caught; byte-level escaping is not.")
BOUNDS = dict(records="<= 3", synonyms_per_side="<= 2", strings="unbounded, full z3 alphabet")
OUTSIDE = ["byte-level JSON escaping and file encoding (the replay uses real files, the symbolic run an in-memory table)",
           "from_shacl itself (rdflib Turtle parser and SPARQL engine): write_shacl is checked against the Turtle document the reader "
           "needs, token by token, and the real round trip is exercised only on replayed path witnesses", "csv quoting of write_tsv",
           "JSON-LD prefixes that are empty or start with '@' (excluded by the quantifier)"]
ASSUMPTIONS = ["json round-trips JSON values unchanged; dict keys stay distinct", "csv stub: rows of cells", "pydantic BaseModel stub",
               "pytrie contract stub", "strict precondition"]

SHAPES = [
    ("epm", [[1, 1], [0, 0]], False, Q), ("jsonld", [[1, 1], [0, 0]], False, Q), ("tsv", [[1, 0], [0, 0]], False, Q),
    ("shacl", [[1, 0], [0, 0]], False, Q, dict(budget=900, shard=5)),
    ("epm_merged", [[1, 1]], False, Q, dict(budget=600)),
    ("jsonld", [[0, 0], [1, 0]], False, Q, dict(params=dict(rewritten=True))), ("epm", [[0, 0], [1, 1]], False, Q, dict(params=dict(rewritten=True))),
    ("tsv", [[0, 0], [0, 0]], False, Q, dict(params=dict(rewritten=True))), ("shacl", [[0, 0], [0, 0]], False, Q, dict(params=dict(rewritten=True), budget=900, shard=4)), ("shacl", [[1, 0], [1, 0], [0, 0]], False, T, dict(budget=1800, shard=6)),
    ("epm", [[2, 1], [0, 2]], False, T, dict(budget=1800, shard=6)), ("epm", [[0, 0]] * 3, False, T, dict(budget=1800, shard=6)),
    ("jsonld", [[2, 0], [1, 1]], False, T, dict(budget=1800, shard=6)), ("tsv", [[0, 0]] * 3, False, T, dict(budget=1200, shard=5)),
]

PRETTY_SAMPLES = True   # path witnesses replayed through real files should be printable


def jobs(tier):
    return shape_jobs(SHAPES, tier, {"epm": ["ok"], "jsonld": ["ok"], "tsv": ["ok"], "shacl": ["ok"], "epm_merged": ["ok"]})


def location(eng, name):
    if eng.mods.symbolic:
        return name
    return os.path.join(tempfile.mkdtemp(prefix="symcurie-c14-"), name)


def build(job):
    fn, params = job["fn"], job["params"]

    def setup(eng, patterns):
        api = eng.mods.api
        recs = mk_recs(eng, params["shape"])
        assume_strict(eng, recs)
        if patterns:
            for k, r in enumerate(recs):
                r.pattern = eng.var(f"pat{k}") if eng.flag(f"haspat{k}") else None
        if params.get("rewritten"):
            # the converter has been exported before (every writer, every flag) and has gained its last record since
            conv = api.Converter([api.Record(**r.kwargs()) for r in recs[:-1]])
            api.write_extended_prefix_map(conv, location(eng, "old.epm.json"))
            for k, (ex, sy) in enumerate([(False, False), (False, True), (True, False), (True, True)]):
                api.write_jsonld_context(conv, location(eng, f"old{k}.jsonld"), include_synonyms=sy, expand=ex)
            api.write_shacl(conv, location(eng, "old.ttl"), include_synonyms=True)
            api.write_tsv(conv, location(eng, "old.tsv"))
            conv.add_record(api.Record(**recs[-1].kwargs()))
            return recs, conv
        return recs, api.Converter([api.Record(**r.kwargs()) for r in recs])

    def epm(eng):
        api = eng.mods.api
        recs, conv = setup(eng, True)
        path = location(eng, "epm.json")
        api.write_extended_prefix_map(conv, path if not eng.flag("as_path") else api.Path(path))
        back = api.load_extended_prefix_map(path)
        eng.expect(len(back.records) == len(recs), "the reloaded extended prefix map has a different number of records")
        for r in recs:
            hit = [x for x in back.records if sym_eq(x.prefix, r.prefix)]
            if len(hit) != 1:
                eng.fail("a record is missing from the reloaded extended prefix map")
                continue
            x = hit[0]
            same_pat = (x.pattern is None and (r.pattern is None or sym_eq(r.pattern, ""))) or (
                x.pattern is not None and r.pattern is not None and sym_eq(x.pattern, r.pattern))
            eng.expect(sym_eq(x.uri_prefix, r.uri_prefix) and as_set_eq(x.prefix_synonyms, r.psyn) and as_set_eq(x.uri_prefix_synonyms, r.usyn)
                       and len(x.prefix_synonyms) == len(r.psyn) and len(x.uri_prefix_synonyms) == len(r.usyn) and same_pat,
                       "a record of the reloaded extended prefix map differs (URI prefix, synonym sets or pattern)")
        return "ok"

    def epm_merged(eng):
        """Records that acquired their synonyms by merging (not at construction) must be written completely, too."""
        api = eng.mods.api
        (r,) = mk_recs(eng, params["shape"])
        assume_strict(eng, [r])
        conv = api.Converter.from_prefix_map(eng.mkdict([(r.prefix, r.uri_prefix)]))
        conv.add_prefix(r.psyn[0], r.uri_prefix, merge=True)
        conv.add_prefix(r.prefix, r.usyn[0], merge=True)
        other = api.Converter.from_prefix_map(eng.mkdict([(eng.var("op"), eng.var("ou"))]))
        try:
            conv = api.chain([conv, other])
        except ValueError:
            pass
        path = location(eng, "epm.json")
        api.write_extended_prefix_map(conv, path)
        back = api.load_extended_prefix_map(path)
        want = sorted([(x.prefix, x.uri_prefix, list(x.prefix_synonyms), list(x.uri_prefix_synonyms)) for x in conv.records], key=lambda t: t[0])
        got = sorted([(x.prefix, x.uri_prefix, list(x.prefix_synonyms), list(x.uri_prefix_synonyms)) for x in back.records], key=lambda t: t[0])
        eng.expect(len(want) == len(got) and all(sym_eq(a[0], b[0]) and sym_eq(a[1], b[1]) and as_set_eq(a[2], b[2]) and as_set_eq(a[3], b[3])
                                                 and len(a[2]) == len(b[2]) and len(a[3]) == len(b[3]) for a, b in zip(want, got)),
                   "an extended prefix map written from records that were merged in place does not read back to the same records")
        return "ok"

    def jsonld(eng):
        api = eng.mods.api
        recs, conv = setup(eng, False)
        eng.assume(And([And(z3.Length(_s(p)) > 0, z3.Not(z3.PrefixOf(z3.StringVal("@"), _s(p)))) for p in all_p(recs)]))
        expand, syn = eng.flag("expand"), eng.flag("include_synonyms")
        path = location(eng, "context.jsonld")
        api.write_jsonld_context(conv, path, include_synonyms=syn, expand=expand)
        back = api.load_jsonld_context(path, strict=False) if syn else api.load_jsonld_context(path)
        want = [(r.prefix, r.uri_prefix) for r in recs] + ([(s, r.uri_prefix) for r in recs for s in r.psyn] if syn else [])
        got = list(back.prefix_map.items())
        eng.expect(len(got) == len(want) and all(any(sym_eq(k, k2) and sym_eq(v, v2) for k2, v2 in got) for k, v in want),
                   "the reloaded JSON-LD context does not give the canonical prefix map (plus the synonyms when requested)")
        return "ok"

    def tsv(eng):
        api = eng.mods.api
        recs, conv = setup(eng, False)
        path = location(eng, "map.tsv")
        api.write_tsv(conv, path)
        if eng.mods.symbolic:
            from .. import stubs
            rows = [r[1] for r in stubs.FS[path] if r[0] == "row"]
        else:
            if any(ch in v for r in recs for v in (r.prefix, r.uri_prefix) for ch in '\r\n\t"\x00'):
                return "<precondition-not-met: cells the TSV dialect cannot carry unchanged>"
            import csv
            with open(path, newline="") as f:
                rows = list(csv.reader(f, delimiter="\t"))
        eng.expect(len(rows) == len(recs) + 1 and list(rows[0]) == ["prefix", "base"], "write_tsv does not write a header and one row per record")
        back = api.Converter.from_prefix_map(eng.mkdict([(row[0], row[1]) for row in rows[1:]]))
        eng.expect(len(back.records) == len(recs) and all(any(sym_eq(x.prefix, r.prefix) and sym_eq(x.uri_prefix, r.uri_prefix) for x in back.records) for r in recs),
                   "the TSV read back as a prefix map is not the canonical prefix map")
        return "ok"

    def shacl(eng):
        """Symbolic run: the text handed to the file is compared, token by token, with the Turtle document the
        SHACL reader needs (one sh:declare entry per record in record order, fields as Turtle string literals, i.e.
        with backslashes escaped); whitespace between tokens is not significant.  Replay: the real rdflib round trip."""
        api = eng.mods.api
        recs, conv = setup(eng, True)
        syn = eng.flag("include_synonyms")
        path = location(eng, "shapes.ttl")
        if not eng.mods.symbolic:
            vals = [v for r in recs for v in [*r.all_p, *r.all_u, r.pattern] if v is not None]
            if any((not v.isprintable()) or any(ch in v for ch in '"<>') for v in vals) or any(not v for r in recs for v in [*r.all_p, *r.all_u]):
                return "<precondition-not-met: outside the SHACL alphabet of the quantifier>"
            api.write_shacl(conv, path, include_synonyms=syn)
            back = api.load_shacl(path, strict=False) if syn else api.load_shacl(path)
            want = [(r.prefix, r.uri_prefix) for r in recs] + ([(s, r.uri_prefix) for r in recs for s in r.psyn] if syn else [])
            got = list(back.prefix_map.items())
            eng.expect(len(got) == len(want) and all(any(k == k2 and v == v2 for k2, v2 in got) for k, v in want),
                       "the SHACL file does not read back to the same prefix map")
            wantp = {pfx: r.pattern for r in recs if r.pattern for pfx in [r.prefix] + (list(r.psyn) if syn else [])}
            eng.expect(dict(back.pattern_map) == wantp, "the SHACL file does not read back to the same patterns")
            return "ok"
        from .. import stubs
        from ..core import SymStr, flatten, z3str_to_py
        # the quantifier's SHACL alphabet: printable (here: ASCII) characters without double quote and angle brackets
        # (only non-emptiness is assumed symbolically - regular alphabet constraints on every string made each query
        # slow; counterexamples are concretised over printable ASCII first, and a witness outside the alphabet is a
        # precondition failure of the replay)
        for r in recs:
            eng.assume(And([z3.Length(_s(v)) > 0 for v in [*r.all_p, *r.all_u]]))
        api.write_shacl(conv, path, include_synonyms=syn)
        (kind, text), = stubs.FS[path]
        esc_f = lambda x: SymStr(_s(x)).replace("\\", "\\\\")       # Turtle string literal: backslashes doubled
        for r in recs:
            for v in [*r.all_p, *r.all_u] + ([r.pattern] if r.pattern is not None else []):
                e = _s(esc_f(v))
                eng.assume(z3.If(z3.Contains(_s(v), z3.StringVal("\\")), z3.Length(e) > z3.Length(_s(v)), e == _s(v)))
        entries = []
        for rec in conv.records:            # record order of the converter
            r = [x for x in recs if sym_eq(x.prefix, rec.prefix)][0]
            for pfx in [r.prefix] + (list(rec.prefix_synonyms) if syn else []):
                toks = ['[ sh:prefix "', ("lit", pfx), '" ; sh:namespace "', ("lit", r.uri_prefix), '"^^xsd:anyURI ']
                # an empty pattern counts as no pattern
                if r.pattern is not None and not sym_eq(r.pattern, ""):
                    toks += ['; sh:pattern "', ("lit", r.pattern), '"']
                toks += [" ]"]
                entries.append(toks)
        want = ["@prefix sh: <http://www.w3.org/ns/shacl#> . @prefix xsd: <http://www.w3.org/2001/XMLSchema#> . [ sh:declare "]
        for k, toks in enumerate(entries):
            want += ([" , "] if k else []) + toks
        want += [" ] ."]

        def norm(tokens):
            out = []
            for t in tokens:
                if isinstance(t, str):
                    if out and isinstance(out[-1], str):
                        out[-1] += t
                    else:
                        out.append(t)
                else:
                    out.append(t)
            return [" ".join(t.split()) if isinstance(t, str) else t for t in out]
        got = []
        for p in flatten(eng.norm(_s(text))):
            got.append(z3str_to_py(p) if z3.is_string_value(p) else p)
        got, want = norm(got), norm(want)
        same = len(got) == len(want)
        if same:
            for g, w in zip(got, want):
                if isinstance(g, str) or isinstance(w, str):
                    if not (isinstance(g, str) and isinstance(w, str) and g.replace(" ", "") == w.replace(" ", "")):
                        same = False
                        break
                    continue
                v = _s(w[1])
                if z3.is_app(g) and g.decl().name() == "json_escape_ascii":
                    # reader model: JSON's string escapes are Turtle's ECHAR / UCHAR escapes, except that a character beyond
                    # the BMP is written as a surrogate pair of \\uXXXX escapes, which a Turtle reader does not recombine
                    from ..core import ANYSTR, ASTRAL
                    reads_back = And(g.arg(0) == v, z3.Not(z3.InRe(v, z3.Concat(ANYSTR, ASTRAL, ANYSTR))))
                else:
                    reads_back = g == _s(esc_f(w[1]))       # Turtle string literal: backslashes doubled
                if not eng.check_holds(reads_back, "write_shacl does not write a field as a Turtle string literal that reads back as the right record's value"):
                    return "ok"
        eng.expect(same, "write_shacl does not produce one well-formed sh:declare entry per record (and synonym) in record order")
        return "ok"

    return dict(epm=epm, jsonld=jsonld, tsv=tsv, shacl=shacl, epm_merged=epm_merged)[fn]
