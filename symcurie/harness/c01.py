"""C01 - URI compression always picks the longest registered URI prefix."""
from __future__ import annotations

import z3

from .common import And, Or, _s, assume_strict, build, get_delim, longest_match, mk_recs, no_match, substr_from, sym_eq, wide_recs, default_warm

EXPLANATION = (
    "Converter.__init__/_index/add_record/parse_uri/compress/is_uri/format_curie are executed on symbolic records "
    "(every CURIE prefix, URI prefix, synonym, the delimiter and the URI u are unconstrained z3 strings, assumed only "
    "pairwise distinct as a strict converter guarantees). On every feasible path the result is compared with an "
    "independent oracle formula: None iff no registered URI prefix is a prefix of u, otherwise canonical prefix of "
    "the owner of the longest matching URI prefix ++ delimiter ++ u[len(prefix):]. Because record contents are "
    "symbolic, one shape covers every overlap lattice and every permutation of a concrete record list; incremental "
    "jobs additionally build the same converter through add_record from every split point, 'interleaved' jobs also query the converter between the additions, the 'chained' job queries a converter after it has been an input of chain(), 'used' jobs query a converter that has answered an independent query before.")
BOUNDS = dict(records="<= 5 symbolic (quick <= 3); thorough also 1 symbolic among 12 fixed ones", uri_prefix_synonyms_per_record="<= 2", strings="unbounded length, full z3 alphabet",
              delimiter="':' and an arbitrary non-empty symbolic string")
OUTSIDE = ["more than 5 records or more than 2 URI-prefix synonyms per record", "non-strict converters",
           "the pytrie implementation itself (modelled by its longest-prefix contract)"]
ASSUMPTIONS = ["pytrie.StringTrie.longest_prefix_item returns the longest stored key that is a prefix (contract stub)",
               "pydantic validation modelled by the BaseModel stub; validator bodies are the real source",
               "records pairwise distinct on CURIE prefixes and on URI prefixes (strict converter precondition)"]


def jobs(tier):
    out = []

    def J(fn, shape, symdelim=False, budget=300, shard=None, wide=0):
        name = f"{fn}:{shape}:{'symdelim' if symdelim else 'colon'}" + (f":wide={wide}" if wide else "")
        out.append(dict(name=name, fn=fn, params=dict(shape=shape, symdelim=symdelim, wide=wide), budget_s=budget,
                        shard_depth=shard, group=fn, expect_outcomes=["none", "some"]))
    quick = [("construct", [[0, 0]], True), ("construct", [[0, 1], [0, 1]], False), ("construct", [[1, 1], [1, 1]], True),
             ("construct", [[0, 0], [0, 0], [0, 0]], False),
             ("incremental", [[0, 1], [0, 0]], False), ("incremental", [[0, 0], [0, 0]], True),
             ("interleaved", [[0, 0], [0, 0]], False), ("interleaved", [[0, 1], [0, 0]], True),
             ("incremental", [[0, 0], [0, 1]], False), ("chained", [[0, 0], [0, 0]], False), ("used", [[0, 0], [0, 0]], False), ("used", [[0, 1]], False)]
    for fn, sh, sd in quick:
        J(fn, sh, sd)
    if tier == "thorough":
        J("construct", [[0, 1]], False, 1200, wide=12)        # one symbolic record among 12 fixed ones
        J("construct", [[0, 1], [0, 1], [0, 1]], False, 1500, shard=8)
        J("construct", [[1, 2], [1, 1]], True, 900, shard=6)
        J("construct", [[0, 2], [0, 0], [0, 0]], False, 1500, shard=8)
        J("construct", [[0, 0]] * 4, False, 2400, shard=10)
        J("incremental", [[0, 1], [0, 1], [0, 0]], False, 2400, shard=8)
        J("incremental", [[1, 1], [0, 1]], True, 1500, shard=6)
        J("interleaved", [[0, 1], [0, 1], [0, 0]], False, 2400, shard=8)
        J("construct", [[0, 0]] * 5, False, 3000, shard=12)
        J("construct", [[0, 1]] * 4, False, 3000, shard=12)
        J("construct", [[0, 2], [0, 2]], True, 2400, shard=8)
        J("construct", [[1, 1], [1, 1], [0, 1]], True, 3000, shard=10)
        J("incremental", [[0, 0]] * 4, False, 3000, shard=10)
    return out


def build(job):  # noqa: F811 - harness entry point (shadows common.build deliberately below)
    from .common import build as _build
    fn, params = job["fn"], job["params"]

    def run(eng):
        api = eng.mods.api
        recs = wide_recs(params.get("wide", 0)) + mk_recs(eng, params["shape"])
        assume_strict(eng, recs)
        delim = get_delim(eng, params["symdelim"], recs, no_delim_in_prefixes=False)
        u = eng.var("uri")
        if fn == "construct":
            c = _build(eng, recs, delim)
        elif fn == "used":
            c = _build(eng, recs, delim)
            default_warm(eng)(c)        # the converter has answered an unrelated query before
        elif fn == "chained":
            # the queried converter has been an *input* of chain() together with a converter that holds another URI
            # prefix for the same CURIE prefix; afterwards it must still answer by what its own records register
            base = api.Converter([api.Record(prefix=recs[0].prefix, uri_prefix=recs[0].uri_prefix)], delimiter=delim)
            extra = api.Converter([api.Record(prefix=recs[0].prefix, uri_prefix=recs[1].uri_prefix)], delimiter=delim)
            api.chain([base, extra])
            c = base
            from .common import Rec
            recs = [Rec(r.prefix, r.uri_prefix, list(r.prefix_synonyms), list(r.uri_prefix_synonyms)) for r in c.records]
        else:
            k = eng.choice("split", list(range(len(recs))))
            c = api.Converter([api.Record(**r.kwargs()) for r in recs[:k]], delimiter=delim)
            for r in recs[k:]:
                if fn == "interleaved":
                    c.compress(u)       # a query between the additions must not influence later answers
                    c.is_uri(u)
                c.add_record(api.Record(**r.kwargs()))
        q, d = _s(u), _s(delim)
        ref = c.parse_uri(u, return_none=True)
        got = c.compress(u)
        isu = c.is_uri(u)
        if ref is None:
            eng.check_holds(no_match(recs, q), "parse_uri found nothing although a registered URI prefix matches")
            eng.expect(got is None, "compress disagrees with parse_uri (value vs None)")
            eng.expect(isu is False, "is_uri disagrees with parse_uri")
            return "none"
        eng.check_holds(
            longest_match(recs, q, lambda up, r: And(_s(ref[0]) == _s(r.prefix), _s(ref[1]) == substr_from(q, z3.Length(up)))),
            "parse_uri result is not (canonical prefix of the longest matching URI prefix's owner, remainder)")
        if got is None:
            eng.fail("compress returned None although parse_uri found a reference")
            return "some"
        eng.check_holds(_s(got) == z3.Concat(_s(ref[0]), d, _s(ref[1])), "compress is not prefix+delimiter+identifier")
        eng.expect(isu is True, "is_uri disagrees with compress")
        return "some"
    return run
