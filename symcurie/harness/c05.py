"""C05 - incrementally built converters stay consistent with their own records (histories)."""
from __future__ import annotations

import z3

from .common import (And, Or, Q, T, _s, _val_eq, all_p, all_u, as_set_eq, assume_strict, lookup_structs, mk_recs, records_eq,
                     shape_jobs, snapshot_records, structs_eq, sym_eq, Rec)

EXPLANATION = (
    "One inductive step from an arbitrary valid state instead of history enumeration. Pre-state: Converter(records) for "
    "symbolic records under the strict precondition (every state satisfying the invariant 'all five lookup structures equal "
    "those of a fresh construction and one-owner uniqueness holds' has this form up to record order). Step: one "
    "add_record(new, case_sensitive, merge) or add_prefix(...) with a symbolic record and symbolic flags, executed on the "
    "real _match_record / add_record / _merge / _index / _eq / _in. Post: (a) ValueError => records and prefix_map, "
    "synonym_to_prefix, reverse_prefix_map, trie, pattern_map unchanged; (b) otherwise a fresh Converter built from the "
    "post records is accepted (uniqueness) and all five structures agree with it, every prefix / URI prefix of the new "
    "record resolves to one record, a merge keeps the target's canonical prefix, canonical URI prefix and pattern and its "
    "synonym sets are exactly old plus new; (c) rejection happens exactly when >= 2 existing records match, or 1 matches "
    "and merge is off (oracle formula over all prefix pairs, casefold as an uninterpreted function when case-insensitive). "
    "Because the post-state again satisfies the invariant, one step covers histories of any length; explicit 2-step "
    "histories corroborate it.")
BOUNDS = dict(pre_state_records="<= 3 (quick <= 2)", new_record_synonyms_per_side="<= 2", strings="unbounded, full z3 alphabet",
              casefold="uninterpreted function (congruence); counterexamples refined over ASCII strings of length <= 3",
              histories="one inductive step; explicit histories of 2 operations")
OUTSIDE = ["strict=False pre-states", "pre-states of more than 3 records", "custom delimiter (add_record does not use it)"]
ASSUMPTIONS = ["pytrie contract stub", "pydantic BaseModel stub (validator bodies real)",
               "the pre-state is the output of the strict constructor (strict precondition on its records)",
               "case-insensitive matching only needs congruence of casefold (uninterpreted function)"]

SHAPES = [
    ("step", [[0, 0]], False, Q, dict(params=dict(new=[0, 0], cs=True))),
    ("step", [[1, 1]], False, Q, dict(params=dict(new=[1, 1], cs=True), budget=600, shard=6)),
    ("step", [[0, 0], [0, 0]], False, Q, dict(params=dict(new=[0, 0], cs=True))),
    ("step", [[0, 0], [0, 0]], False, Q, dict(params=dict(new=[1, 1], cs=True), budget=600, shard=7)),
    ("step", [[0, 0]], False, Q, dict(params=dict(new=[0, 0], cs=False), budget=600)),
    ("step", [[0, 0]], False, T, dict(params=dict(new=[1, 1], cs=False), budget=1800, shard=7)),
    ("step", [[1, 1]], False, T, dict(params=dict(new=[0, 0], cs=False), budget=1800, shard=6)),
    ("addprefix", [[1, 0]], False, Q, dict(params=dict(new=[1, 1], cs=True), budget=600, shard=6)),
    ("queries", [[0, 0]], False, Q, dict(params=dict(new=[0, 1], cs=True), budget=900, shard=7)),
    ("queries", [[1, 0]], False, T, dict(params=dict(new=[1, 0], cs=True), budget=3000, shard=9)),
    ("step", [[1, 0], [0, 0]], False, Q, dict(params=dict(new=[0, 0], cs=False), budget=900, shard=7)),
    ("step", [[1, 1], [0, 0]], False, T, dict(params=dict(new=[1, 1], cs=True), budget=2400, shard=8)),
    ("step", [[0, 0]] * 3, False, T, dict(params=dict(new=[1, 1], cs=True), budget=2400, shard=8)),
    ("step", [[1, 1]], False, T, dict(params=dict(new=[2, 0], cs=True), budget=1800, shard=6)),
    ("step", [[1, 1]], False, T, dict(params=dict(new=[0, 2], cs=True), budget=1800, shard=6)),
    ("pattern", [[0, 0]], False, Q, dict(params=dict(new=[0, 0], cs=True))),
    ("history2", [[0, 0]], False, T, dict(params=dict(new=[0, 0], cs=True), budget=2400, shard=8)),
    ("queries", [[0, 0], [0, 0]], False, T, dict(params=dict(new=[0, 0], cs=True), budget=3000, shard=9)),
    ("step", [[1, 0]], False, T, dict(params=dict(new=[1, 0], cs=False), budget=2400, shard=8)),
    ("history2", [], False, T, dict(params=dict(new=[1, 1], cs=True), budget=2400, shard=8)),
]


def jobs(tier):
    return shape_jobs(SHAPES, tier, {"step": ["rejected", "merged", "appended"], "addprefix": ["rejected", "merged", "appended"], "queries": ["rejected", "merged", "appended"],
                                     "pattern": ["merged", "appended"], "history2": ["done"]})


def match_formula(eng, new, r, cs):
    """new matches existing record r: they share a CURIE prefix or a URI prefix (up to case if not cs)."""
    def eq(a, b):
        return _s(a) == _s(b) if cs else eng.cf(a) == eng.cf(b)
    return Or([eq(a, b) for a in new.all_p for b in r.all_p], [eq(a, b) for a in new.all_u for b in r.all_u])


def fresh_from(eng, c):
    api = eng.mods.api
    return api.Converter([api.Record(prefix=r.prefix, uri_prefix=r.uri_prefix, prefix_synonyms=list(r.prefix_synonyms),
                                     uri_prefix_synonyms=list(r.uri_prefix_synonyms), pattern=r.pattern) for r in c.records])


def one_step(eng, c, pre_recs, new, cs, merge, via_add_prefix=False, queries=None):
    """Apply one operation and check the post-conditions. Returns the outcome class."""
    api = eng.mods.api
    if queries is not None:
        for name, args in queries:      # warm-up: ask before the operation what will be asked after it
            getattr(c, name)(*args)
    before_recs, before_structs = snapshot_records(c), lookup_structs(c)
    nmatch = z3.Sum([z3.If(match_formula(eng, new, r, cs), 1, 0) for r in pre_recs]) if pre_recs else z3.IntVal(0)
    try:
        if via_add_prefix:
            c.add_prefix(new.prefix, new.uri_prefix, list(new.psyn), list(new.usyn), case_sensitive=cs, merge=merge)
        else:
            c.add_record(api.Record(**new.kwargs()), case_sensitive=cs, merge=merge)
    except ValueError:
        eng.expect(records_eq(before_recs, snapshot_records(c)) and structs_eq(before_structs, lookup_structs(c)),
                   "a rejected add_record / add_prefix changed the converter")
        eng.check_holds(Or(nmatch >= 2, And(nmatch == 1, z3.BoolVal(not merge))),
                        "add_record rejected a record although fewer than two records match (or one matches and merge=True)")
        return "rejected"
    eng.check_holds(z3.Not(Or(nmatch >= 2, And(nmatch == 1, z3.BoolVal(not merge)))),
                    "add_record accepted a record that matches several records (or one record with merge=False)")
    try:
        fresh = fresh_from(eng, c)
    except ValueError as e:
        eng.fail(f"after add_record the records violate one-owner uniqueness ({type(e).__name__})")
        return "broken"
    eng.expect(structs_eq(lookup_structs(c), lookup_structs(fresh)),
               "lookup structures differ from those of a converter freshly built from the current records (index drift)")
    # the converter's own Record objects must describe themselves correctly to a strict constructor (one-owner uniqueness)
    try:
        api.Converter(list(c.records))
        eng.ok()
    except ValueError as e:
        eng.fail(f"the converter's own records are rejected by the strict constructor ({type(e).__name__})")
    zz = eng.var("zz_fresh_uri")
    eng.assume(And([_s(zz) != _s(u) for r in c.records for u in [r.uri_prefix, *r.uri_prefix_synonyms]]))
    for p in new.all_p[-1:]:
        try:
            api.Converter([*c.records, api.Record(prefix=p, uri_prefix=zz)])
            eng.fail("a strict constructor accepts the current records together with a second owner of a prefix they hold")
        except ValueError:
            eng.ok()
    if queries is not None:
        for name, args in queries:
            a, b = getattr(c, name)(*args), getattr(fresh, name)(*args)
            eng.expect(_val_eq(a, b), f"{name} answers differently from a converter freshly built from the current records")
    for p in new.all_p:
        got = c.standardize_prefix(p)
        eng.expect(got is not None and sum(1 for r in c.records if sym_eq(r.prefix, got)) == 1 and c.expand_pair(p, "1") is not None,
                   "a CURIE prefix of the added record does not resolve to one record")
    for u in new.all_u:
        eng.expect(c.reverse_prefix_map.get(u) is not None and u in c.trie
                   and sum(1 for r in c.records if any(sym_eq(u, x) for x in r._all_uri_prefixes)) == 1,
                   "a URI prefix of the added record does not resolve to one record")
    if len(c.records) == len(before_recs):
        # merge: exactly one record changed; it keeps canonical prefix, canonical URI prefix and pattern
        changed = [(b, a) for b, a in zip(before_recs, snapshot_records(c)) if not records_eq([b], [a])]
        eng.expect(len(changed) <= 1, "a merge changed more than one record")
        for b, a in changed:
            eng.expect(sym_eq(b[0], a[0]) and sym_eq(b[1], a[1]) and (b[4] is a[4] or (b[4] is not None and a[4] is not None and sym_eq(b[4], a[4]))),
                       "a merge changed the target's canonical prefix, canonical URI prefix or pattern")
            want_p = list(b[2]) + [x for x in new.all_p if not sym_eq(x, b[0])]
            want_u = list(b[3]) + [x for x in new.all_u if not sym_eq(x, b[1])]
            eng.expect(as_set_eq(a[2], want_p), "after a merge the CURIE-prefix synonyms are not exactly old plus new")
            eng.expect(as_set_eq(a[3], want_u), "after a merge the URI-prefix synonyms are not exactly old plus new")
        eng.check_holds(nmatch == 1, "records were merged although no single record matches")
        return "merged"
    eng.expect(len(c.records) == len(before_recs) + 1 and records_eq(before_recs, snapshot_records(c)[:len(before_recs)]),
               "appending a record changed existing records")
    eng.check_holds(nmatch == 0, "a matching record was appended instead of merged")
    return "appended"


def build(job):
    fn, params = job["fn"], job["params"]
    cs = params.get("cs", True)

    def mk_new(eng, tag="n"):
        ps, us = params["new"]
        new = Rec(eng.var(f"{tag}p"), eng.var(f"{tag}u"), [eng.var(f"{tag}ps{j}") for j in range(ps)],
                  [eng.var(f"{tag}us{j}") for j in range(us)])
        # a well-formed record (Record's own validators are C04's subject) without internal repetitions
        eng.assume(And([_s(new.prefix) != _s(s) for s in new.psyn], [_s(new.uri_prefix) != _s(s) for s in new.usyn]))
        return new

    def step(eng):
        api = eng.mods.api
        pre = mk_recs(eng, params["shape"])
        assume_strict(eng, pre)
        if fn == "pattern":
            pre[0].pattern = eng.var("pat0") if eng.flag("haspat0") else None
        c = api.Converter([api.Record(**r.kwargs()) for r in pre])
        new = mk_new(eng)
        if fn == "pattern":
            new.pattern = eng.var("patn") if eng.flag("haspatn") else None
        merge = eng.flag("merge")
        queries = None
        if fn == "queries":
            qu, qc, qp = eng.var("q_uri"), eng.var("q_curie"), eng.var("q_prefix")
            queries = [("compress", (qu,)), ("standardize_uri", (qu,)), ("expand", (qc,)), ("expand_all", (qc,)),
                       ("standardize_prefix", (qp,)), ("get_record", (qp,))]
            queries = [(n, a) for n, a in queries if n != "get_record"] + [("is_curie", (qc,)), ("is_uri", (qu,))]
        return one_step(eng, c, pre, new, cs, merge, via_add_prefix=(fn == "addprefix"), queries=queries)

    def history2(eng):
        api = eng.mods.api
        pre = mk_recs(eng, params["shape"])
        assume_strict(eng, pre)
        c = api.Converter([api.Record(**r.kwargs()) for r in pre])
        cur = list(pre)
        for k in range(2):
            new = mk_new(eng, tag=f"n{k}")
            merge = eng.flag(f"merge{k}")
            # oracle-side description of the current records, rebuilt from the converter after each step
            out = one_step(eng, c, cur, new, cs, merge)
            if out == "broken":
                return "done"
            cur = [Rec(r.prefix, r.uri_prefix, list(r.prefix_synonyms), list(r.uri_prefix_synonyms)) for r in c.records]
        return "done"
    return history2 if fn == "history2" else step
