"""Shared pieces of the property harnesses: symbolic converter fixtures and oracle formulas.

A harness is a function run(eng) that is executed in two modes with the *same* code:
  symbolic  eng = core.Engine,     eng.mods = the AST-rewritten curies loaded from /repo, inputs are proxies
  concrete  eng = core.ConcEngine, eng.mods = the real curies package from /repo/src, inputs are plain str
Oracles are z3 formulas built with _s()/_i() (which accept proxies and plain values alike), so that in
concrete mode they are ground and are evaluated by z3's simplifier.
"""
from __future__ import annotations

import z3

from ..core import _b, _i, _s, substr_from, sym_eq, SymBool, SymStr  # noqa: F401

TRUE = z3.BoolVal(True)
FALSE = z3.BoolVal(False)


def And(*xs):
    xs = [x for x in _flat(xs)]
    return z3.And(*xs) if xs else TRUE


def Or(*xs):
    xs = [x for x in _flat(xs)]
    return z3.Or(*xs) if xs else FALSE


def _flat(xs):
    for x in xs:
        if isinstance(x, (list, tuple)):
            yield from _flat(x)
        else:
            yield _b(x)


def distinct(xs):
    xs = [_s(x) for x in xs]
    return z3.Distinct(*xs) if len(xs) > 1 else TRUE


class Rec:
    """The harness-side description of one record (independent of the Record class under test)."""

    def __init__(self, prefix, uri_prefix, psyn, usyn, pattern=None):
        self.prefix, self.uri_prefix, self.psyn, self.usyn, self.pattern = prefix, uri_prefix, list(psyn), list(usyn), pattern

    @property
    def all_p(self):
        return [self.prefix, *self.psyn]

    @property
    def all_u(self):
        return [self.uri_prefix, *self.usyn]

    def kwargs(self):
        d = dict(prefix=self.prefix, uri_prefix=self.uri_prefix, prefix_synonyms=list(self.psyn),
                 uri_prefix_synonyms=list(self.usyn))
        if self.pattern is not None:
            d["pattern"] = self.pattern
        return d


def mk_recs(eng, shape, tag=""):
    """shape: list of (n_prefix_synonyms, n_uri_prefix_synonyms)."""
    recs = []
    for i, (ps, us) in enumerate(shape):
        recs.append(Rec(eng.var(f"{tag}p{i}"), eng.var(f"{tag}u{i}"),
                        [eng.var(f"{tag}p{i}s{j}") for j in range(ps)],
                        [eng.var(f"{tag}u{i}s{j}") for j in range(us)]))
    return recs


def wide_recs(n):
    """n fixed records (pairwise different CURIE prefixes and URI prefixes, none a prefix of another) that accompany the
    symbolic ones in 'wide' jobs: behaviour that only changes beyond a number of records shows there."""
    return [Rec(f"w{i:02d}", f"https://w.example.org/{i:02d}/", [], []) for i in range(n)]


def all_p(recs):
    return [x for r in recs for x in r.all_p]


def all_u(recs):
    return [x for r in recs for x in r.all_u]


def assume_strict(eng, recs):
    """Precondition of a strict converter: one owner per CURIE prefix and per URI prefix."""
    eng.assume(distinct(all_p(recs)))
    eng.assume(distinct(all_u(recs)))


def get_delim(eng, symbolic, recs=None, no_delim_in_prefixes=True):
    if not symbolic:
        return ":"
    d = eng.var("delim")
    eng.assume(z3.Length(_s(d)) > 0)
    if recs is not None and no_delim_in_prefixes:
        eng.assume(And([z3.Not(z3.Contains(_s(p), _s(d))) for p in all_p(recs)]))
    return d


def build(eng, recs, delim=":", records_as="list", **kw):
    """records_as: the kind of Iterable[Record] handed to the constructor - a list, a tuple or a one-shot iterator."""
    api = eng.mods.api
    records = [api.Record(**r.kwargs()) for r in recs]
    if records_as == "iter":
        records = iter(records)
    elif records_as == "tuple":
        records = tuple(records)
    return api.Converter(records, delimiter=delim, **kw)


# ------------------------------------------------------------------------------- oracles
def uri_owners(recs):
    """[(uri_prefix_term, record)] for every registered URI prefix."""
    return [(_s(up), r) for r in recs for up in r.all_u]


def longest_match(recs, q, then):
    """Formula: there is an owner (up, r) with up a prefix of q, no other registered URI prefix that is a
    prefix of q is longer, and then(up, r) holds."""
    owners = uri_owners(recs)
    alts = []
    for i, (up, r) in enumerate(owners):
        best = And(z3.PrefixOf(up, q),
                   [z3.Implies(z3.PrefixOf(o, q), z3.Length(o) <= z3.Length(up)) for j, (o, _) in enumerate(owners) if j != i])
        alts.append(And(best, then(up, r)))
    return Or(alts)


def no_match(recs, q):
    return And([z3.Not(z3.PrefixOf(up, q)) for up, _ in uri_owners(recs)])


def owner_of_prefix(recs, p, then):
    """Formula: some record r has p among its prefixes/synonyms and then(r) holds."""
    return Or([And(Or([_s(x) == p for x in r.all_p]), then(r)) for r in recs])


def unknown_prefix(recs, p):
    return And([_s(x) != p for x in all_p(recs)])


def prefix_free(recs):
    us = [_s(u) for u in all_u(recs)]
    return And([z3.Not(z3.PrefixOf(a, b)) for i, a in enumerate(us) for j, b in enumerate(us) if i != j])


def is_none(x):
    return x is None


def snapshot_records(c):
    return [(r.prefix, r.uri_prefix, list(r.prefix_synonyms), list(r.uri_prefix_synonyms), r.pattern) for r in c.records]


def list_eq(a, b):
    return len(a) == len(b) and all(_val_eq(x, y) for x, y in zip(a, b))


def _val_eq(x, y):
    if x is None or y is None:
        return x is y
    if isinstance(x, (list, tuple)) and isinstance(y, (list, tuple)):
        return list_eq(list(x), list(y))
    return sym_eq(x, y)


def records_eq(a, b):
    """Two snapshot_records() lists are identical (same order, same contents)."""
    return list_eq(a, b)


def as_set_eq(xs, ys):
    """xs and ys contain the same strings (as sets), decided by forking comparisons."""
    return all(any(sym_eq(x, y) for y in ys) for x in xs) and all(any(sym_eq(x, y) for x in xs) for y in ys)


def items_of(mapping):
    return list(mapping.items())


def map_eq(a, b):
    """Two mappings (dict / SymDict / trie) are equal as mappings."""
    ia, ib = items_of(a), items_of(b)
    if len(ia) != len(ib):
        return False
    for k, v in ia:
        hit = [v2 for k2, v2 in ib if sym_eq(k, k2)]
        if len(hit) != 1 or not _val_eq(v, hit[0]):
            return False
    return True


def lookup_structs(c):
    trie = c.trie
    titems = list(trie._d.items()) if hasattr(trie, "_d") else list(trie.items())
    return dict(prefix_map=list(c.prefix_map.items()), synonym_to_prefix=list(c.synonym_to_prefix.items()),
                reverse_prefix_map=list(c.reverse_prefix_map.items()), trie=titems,
                pattern_map=list(c.pattern_map.items()))


class _L:
    def __init__(self, items):
        self._items = items

    def items(self):
        return self._items


def structs_eq(a, b):
    return all(map_eq(_L(a[k]), _L(b[k])) for k in a)


# ------------------------------------------------------------------------------- fixtures
def fixture(eng, params, prefixes_without_delim=True, warm=None):
    """Symbolic strict converter: records of params['shape'], delimiter ':' or symbolic.
    params['built'] == 'merge': the same converter is reached through the incremental path - constructed without the
    last synonym of each kind, queried (`warm`, so that any state remembered from queries is in place), then completed
    with add_prefix(..., merge=True)."""
    recs = mk_recs(eng, params["shape"])
    for r, pat in zip(recs, params.get("patterns") or []):
        r.pattern = pat         # a concrete regular expression for the record's local identifiers (or None)
    recs = recs + wide_recs(params.get("wide", 0))
    assume_strict(eng, recs)
    delim = get_delim(eng, params.get("symdelim", False), recs, no_delim_in_prefixes=False)
    if warm is None and params.get("built") in ("grow", "merge", "used"):
        warm = default_warm(eng)
    if params.get("built") == "grow":
        # the converter is constructed without its last record, queried, and then completed with add_record (append path)
        if prefixes_without_delim:
            eng.assume(And([first_occurrence(p, delim) for p in all_p(recs)]))
        api = eng.mods.api
        c = api.Converter([api.Record(**r.kwargs()) for r in recs[:-1]], delimiter=delim)
        if warm is not None:
            warm(c)
        c.add_record(api.Record(**recs[-1].kwargs()))
        return recs, delim, c
    if params.get("built") == "merge":
        if prefixes_without_delim:
            eng.assume(And([first_occurrence(p, delim) for p in all_p(recs)]))
        api = eng.mods.api
        base = [Rec(r.prefix, r.uri_prefix, r.psyn[:-1], r.usyn[:-1], r.pattern) for r in recs]
        c = api.Converter([api.Record(**r.kwargs()) for r in base], delimiter=delim)
        if warm is not None:
            warm(c)
        for r in recs:
            if r.psyn:
                c.add_prefix(r.psyn[-1], r.uri_prefix, merge=True)
            if r.usyn:
                c.add_prefix(r.prefix, r.usyn[-1], merge=True)
        return recs, delim, c
    if prefixes_without_delim:
        # quantifier precondition "no CURIE prefix contains the delimiter"; for a multi-character delimiter this is
        # read as "prefix ++ delimiter contains the delimiter only at its end" (otherwise the CURIE syntax itself is
        # ambiguous, e.g. prefix "-_" with delimiter "__"), which coincides for single-character delimiters.
        eng.assume(And([first_occurrence(p, delim) for p in all_p(recs)]))
    c = build(eng, recs, delim, records_as=params.get("records_as", "list"))
    if params.get("built") == "used" and warm is not None:
        warm(c)         # the converter has answered other queries before
    return recs, delim, c


def default_warm(eng):
    """Earlier use of the converter: every public query family is asked about an independent symbolic string and an
    independent symbolic (prefix, identifier) pair.  Whatever a query remembers (memo tables keyed by strings are looked up
    with symbolic equality, so 'the same string as later' is one of the explored cases) is in place afterwards."""
    ws, wp, wi = eng.var("w_s"), eng.var("w_P"), eng.var("w_I")

    def warm(c):
        for f in (c.compress, c.expand, lambda x: c.parse(x, strict=False), c.standardize_uri, c.standardize_curie, c.expand_all):
            try:
                f(ws)
            except ValueError:
                pass
        c.expand_pair_all(wp, wi)
        c.expand_pair(wp, wi)
        c.standardize_prefix(wp)
    return warm


def first_occurrence(P, d):
    """d does not occur in P ++ d before the final position, i.e. P ++ d ++ I splits at this d."""
    P, d = _s(P), _s(d)
    if z3.is_string_value(d) and len(d.as_string()) == 1:
        return z3.Not(z3.Contains(P, d))
    n = z3.Length(d)
    return z3.Not(z3.Contains(z3.Concat(P, z3.SubString(d, 0, n - 1)), d))


def mk_curie(eng, delim, tag=""):
    """A CURIE string P ++ delim ++ I that splits exactly at this delimiter occurrence."""
    P, I = eng.var(f"{tag}P"), eng.var(f"{tag}I")
    eng.assume(first_occurrence(P, delim))
    return P + delim + I, P, I


def shape_jobs(fn_shapes, tier, group_expect=None, budget=300):
    """helper: [(fn, shape, symdelim, tiers, extra)] -> job dicts"""
    out = []
    for item in fn_shapes:
        fn, shape, symdelim, tiers = item[:4]
        extra = item[4] if len(item) > 4 else {}
        if tier not in tiers:
            continue
        params = dict(shape=shape, symdelim=symdelim)
        params.update(extra.get("params", {}))
        tagx = "".join(f":{k}={v}" for k, v in extra.get("params", {}).items())
        out.append(dict(name=f"{fn}:{shape}:{'symdelim' if symdelim else 'colon'}{tagx}", fn=fn, params=params,
                        budget_s=extra.get("budget", budget), shard_depth=extra.get("shard"), group=fn,
                        expect_outcomes=(group_expect or {}).get(fn, [])))
    return out


Q = ("quick", "thorough")
T = ("thorough",)
