"""C12 - URI-prefix remapping and rewiring re-point records without losing information."""
from __future__ import annotations

import z3

from .common import (And, Or, Q, T, _s, all_u, as_set_eq, assume_strict, distinct, mk_recs, records_eq, shape_jobs,
                     snapshot_records, sym_eq)

EXPLANATION = (
    "remap_uri_prefixes, rewire, _get_uri_preferred_or_synonym and _get_curie_preferred_or_synonym run on a symbolic strict "
    "converter and a symbolic injective mapping (distinct keys, distinct values) of m pairs. Oracle: TransitiveError exactly "
    "when a key equals a value (remap_uri_prefixes only); otherwise every record keeps its CURIE prefix and CURIE synonyms, "
    "keeps every URI prefix it had and gains at most the mapped new one; the new one becomes canonical (the old canonical "
    "becoming a synonym) exactly when it is unused in the converter or already a synonym of that record, and a new URI "
    "prefix owned elsewhere leaves the record untouched; unknown keys change nothing; rewire(rewire(c, w), w) has the "
    "records of rewire(c, w).")
BOUNDS = dict(records="<= 3", synonyms_per_side="<= 1", mapping_pairs="<= 2", strings="unbounded, full z3 alphabet")
OUTSIDE = ["non-injective mappings (excluded by the statement)", "mappings of 3 or more pairs", "non-strict converters"]
ASSUMPTIONS = ["pytrie contract stub", "pydantic BaseModel stub", "strict precondition", "mapping keys distinct, values distinct"]

SHAPES = [
    ("remap_uri", [[0, 1]], False, Q, dict(params=dict(m=1))), ("remap_uri", [[0, 0], [0, 0]], False, Q, dict(params=dict(m=2), budget=600, shard=6)),
    ("remap_uri", [[0, 1], [0, 0]], False, Q, dict(params=dict(m=1))),
    ("rewire", [[1, 1]], False, Q, dict(params=dict(m=1))), ("rewire", [[1, 0]], False, Q, dict(params=dict(m=2), budget=600, shard=5)),
    ("remap_uri", [[0, 1]], False, Q, dict(params=dict(m=2), budget=600, shard=5)), ("rewire", [[0, 0], [0, 0]], False, Q, dict(params=dict(m=2), budget=600, shard=6)),
    ("rewire", [[1, 0], [0, 1]], False, Q, dict(params=dict(m=1), budget=600, shard=5)),
    ("remap_uri", [[0, 1]], False, Q, dict(params=dict(m=1, twice=True))), ("rewire", [[1, 1]], False, Q, dict(params=dict(m=1, twice=True))),
    ("remap_uri", [[0, 0], [0, 0]], False, Q, dict(params=dict(m=1, warm=True))), ("rewire", [[0, 0], [0, 0]], False, Q, dict(params=dict(m=1, warm=True))),
    ("remap_uri", [[1, 1], [0, 1]], False, T, dict(params=dict(m=2), budget=3000, shard=9)),
    ("remap_uri", [[0, 0]] * 3, False, T, dict(params=dict(m=2), budget=3000, shard=9)),
    ("rewire", [[1, 1], [0, 1]], False, T, dict(params=dict(m=2), budget=3000, shard=9)),
    ("rewire", [[0, 0]] * 3, False, T, dict(params=dict(m=2), budget=3000, shard=9)),
    ("rewire", [[1, 1], [1, 1]], False, T, dict(params=dict(m=2), budget=3000, shard=10)),
    ("remap_uri", [[0, 2], [0, 1]], False, T, dict(params=dict(m=2), budget=3000, shard=10)),
]


def jobs(tier):
    return shape_jobs(SHAPES, tier, {"remap_uri": ["transitive", "ok"], "rewire": ["ok"]})


def build(job):
    fn, params = job["fn"], job["params"]

    def run(eng):
        api, rec = eng.mods.api, eng.mods.rec
        recs = mk_recs(eng, params["shape"])
        assume_strict(eng, recs)
        if params.get("warm"):
            # the converter has a history: it was reconciled once (with an empty mapping), then gained its last record
            c = api.Converter([api.Record(**r.kwargs()) for r in recs[:-1]])
            rec.remap_uri_prefixes(c, eng.mkdict([]))
            rec.rewire(c, eng.mkdict([]))
            c.add_record(api.Record(**recs[-1].kwargs()))
        else:
            c = api.Converter([api.Record(**r.kwargs()) for r in recs])
        m = params["m"]
        keys = [eng.var(f"k{i}") for i in range(m)]
        vals = [eng.var(f"v{i}") for i in range(m)]
        eng.assume(distinct(keys))
        eng.assume(distinct(vals))
        mapping = eng.mkdict(list(zip(keys, vals)))
        transitive = Or([_s(k) == _s(v) for k in keys for v in vals])
        if params.get("twice"):
            # the same call has been made on the same converter before; its result was discarded
            try:
                rec.remap_uri_prefixes(c, mapping) if fn == "remap_uri" else rec.rewire(c, mapping)
            except (NotImplementedError, ValueError):
                pass
        try:
            c2 = rec.remap_uri_prefixes(c, mapping) if fn == "remap_uri" else rec.rewire(c, mapping)
        except NotImplementedError as e:
            eng.expect(fn == "remap_uri" and type(e).__name__ == "TransitiveError", f"{fn} raised {type(e).__name__}")
            eng.check_holds(transitive, "TransitiveError raised although no string is both a key and a value")
            return "transitive"
        except ValueError as e:
            eng.fail(f"{fn} raised {type(e).__name__} for an injective mapping")
            return "error"
        if fn == "remap_uri":
            eng.check_holds(z3.Not(transitive), "remap_uri_prefixes accepted a mapping in which a string is both key and value")
        eng.expect(len(c2.records) == len(recs), f"{fn} changed the number of records")
        used = [_s(u) for u in all_u(recs)]
        for r in recs:
            r2 = [x for x in c2.records if sym_eq(x.prefix, r.prefix)]
            if len(r2) != 1:
                eng.fail(f"{fn} lost or duplicated a record's canonical CURIE prefix")
                continue
            r2 = r2[0]
            eng.expect(as_set_eq(r2.prefix_synonyms, r.psyn), f"{fn} changed a record's CURIE-prefix synonyms")
            # the mapped new URI prefix of this record: first of [canonical, synonyms...] that is a key
            lookups = r.all_u if fn == "remap_uri" else r.all_p
            new_e, has = z3.StringVal(""), z3.BoolVal(False)
            for x in reversed(lookups):
                for k, v in zip(keys, vals):
                    hit = _s(x) == _s(k)
                    new_e = z3.If(hit, _s(v), new_e)
                    has = z3.If(hit, z3.BoolVal(True), has)
            swap = And(has, Or(And([new_e != u for u in used]), Or([new_e == _s(s) for s in r.usyn])))
            old_all = r.all_u
            new_all = [r2.uri_prefix, *r2.uri_prefix_synonyms]
            eng.expect(all(any(sym_eq(x, y) for y in new_all) for x in old_all), f"{fn} forgot a URI prefix a record had")
            if sym_eq(r2.uri_prefix, r.uri_prefix):
                eng.check_holds(z3.Not(swap), f"{fn} did not make an applicable new URI prefix canonical")
                eng.expect(as_set_eq(r2.uri_prefix_synonyms, r.usyn), f"{fn} changed the synonyms of a record it should leave untouched")
            else:
                eng.check_holds(And(swap, _s(r2.uri_prefix) == new_e),
                                f"{fn} changed a canonical URI prefix without an applicable mapping (clash, unknown key or wrong value)")
                want = [x for x in [*r.usyn, r.uri_prefix] if not sym_eq(x, r2.uri_prefix)]
                eng.expect(as_set_eq(r2.uri_prefix_synonyms, want),
                           f"{fn}: URI-prefix synonyms are not the old ones plus the replaced canonical prefix")
        if fn == "rewire":
            c3 = rec.rewire(c2, mapping)
            a, b = sorted(snapshot_records(c2), key=lambda t: t[0]), sorted(snapshot_records(c3), key=lambda t: t[0])
            eng.expect(len(a) == len(b) and all(sym_eq(x[0], y[0]) and sym_eq(x[1], y[1]) and as_set_eq(x[2], y[2]) and as_set_eq(x[3], y[3])
                                                for x, y in zip(a, b)), "applying the same rewiring twice differs from applying it once")
        return "ok"
    return run
