"""C03 - compression is lossless; compress and expand are inverse on prefix-free maps."""
from __future__ import annotations

import z3

from .common import And, Or, Q, T, _s, fixture, longest_match, mk_curie, owner_of_prefix, prefix_free, shape_jobs, sym_eq

EXPLANATION = (
    "compress, expand, expand_all, standardize_uri, standardize_curie, is_uri (and everything they call) run on a "
    "symbolic strict converter whose CURIE prefixes do not contain the delimiter. 'lossless': for a symbolic URI u with "
    "compress(u)=c: u is a member of expand_all(c), expand(c)=standardize_uri(u), expand(c)=u when the matched URI prefix "
    "is canonical, and expand(c) is itself a URI of the converter. 'inverse': under the additional assumption that no "
    "registered URI prefix is a prefix of another, compress(expand(c))=standardize_curie(c) for a symbolic recognised "
    "CURIE and expand(compress(u))=standardize_uri(u).")
BOUNDS = dict(records="<= 3", synonyms_per_side="<= 2", strings="unbounded, full z3 alphabet", delimiter="':' and symbolic")
OUTSIDE = ["more than 3 records", "CURIE prefixes containing the delimiter (excluded by the quantifier)", "non-strict converters"]
ASSUMPTIONS = ["pytrie longest-prefix contract stub", "pydantic BaseModel stub (validator bodies real)",
               "strict converter precondition", "no CURIE prefix contains the delimiter"]

SHAPES = [
    ("lossless", [[1, 1]], False, Q), ("lossless", [[0, 1], [0, 0]], True, Q), ("lossless", [[1, 1], [0, 1]], False, Q),
    ("lossless", [[1, 1]], False, Q, dict(params=dict(built="merge"))), ("lossless", [[0, 1], [0, 0]], False, Q, dict(params=dict(built="merge"))),
    ("inverse", [[1, 1]], False, Q), ("inverse", [[0, 1], [0, 0]], False, Q), ("inverse", [[1, 0], [0, 1]], True, Q),
    ("lossless", [[0, 0], [0, 0]], False, Q, dict(params=dict(built="grow"), shard=5)), ("lossless", [[0, 1]], False, Q, dict(params=dict(built="used"))),
    ("inverse", [[0, 0]], False, Q, dict(params=dict(patterns=["^\\d{7}$"]))),
    ("lossless", [[0, 1]], False, Q, dict(params=dict(patterns=["^\\d{7}$"]))),
    ("lossless", [[1, 1], [1, 1]], True, T, dict(budget=1200, shard=6)),
    ("lossless", [[0, 1], [0, 1], [0, 0]], False, T, dict(budget=1800, shard=8)),
    ("inverse", [[1, 1], [1, 1]], False, T, dict(budget=1800, shard=6)),
    ("inverse", [[0, 0], [0, 0], [0, 0]], True, T, dict(budget=1800, shard=8)),
    ("lossless", [[1, 1], [1, 1], [0, 1]], False, T, dict(budget=3000, shard=10)),
    ("inverse", [[0, 1], [0, 1]], True, T, dict(budget=3000, shard=10)),
]


def jobs(tier):
    return shape_jobs(SHAPES, tier, {"lossless": ["not-a-uri", "compressed"], "inverse": ["unknown-curie", "roundtrip"]})


def build(job):
    fn, params = job["fn"], job["params"]

    def lossless(eng):
        u = eng.var("uri")
        q = _s(u)

        wu, wp, wi = eng.var("wuri"), eng.var("wP"), eng.var("wI")      # independent earlier queries

        def warm(cv):
            for x in (u, wu):
                cur0 = cv.compress(x)
                if cur0 is not None:
                    cv.expand_all(cur0)
                    cv.expand(cur0)
                cv.standardize_uri(x)
                cv.is_uri(x)
            cv.expand_pair_all(wp, wi), cv.expand_pair(wp, wi), cv.get_record(wp), cv.standardize_prefix(wp)
        recs, delim, c = fixture(eng, params, warm=warm)
        cur = c.compress(u)
        if cur is None:
            return "not-a-uri"
        alls = c.expand_all(cur)
        exp = c.expand(cur)
        su = c.standardize_uri(u)
        if alls is None or exp is None or su is None:
            eng.fail("a compressed URI does not expand / standardize (expand, expand_all or standardize_uri gave no result)")
            return "compressed"
        eng.check_holds(Or([_s(x) == q for x in alls]), "u is not among expand_all(compress(u))")
        eng.check_holds(_s(exp) == _s(su), "expand(compress(u)) != standardize_uri(u)")
        eng.check_holds(longest_match(recs, q, lambda up, r: z3.Implies(up == _s(r.uri_prefix), _s(exp) == q)),
                        "expand(compress(u)) != u although u was written with the canonical URI prefix")
        eng.expect(c.is_uri(exp) is True, "expand(compress(u)) is not itself compressible")
        return "compressed"

    def inverse(eng):
        recs, delim, c = fixture(eng, params)
        eng.assume(prefix_free(recs))
        curie, P, I = mk_curie(eng, delim)
        exp = c.expand(curie)
        u = eng.var("uri")
        cu = c.compress(u)
        if cu is not None:
            back = c.expand(cu)
            su = c.standardize_uri(u)
            if back is None or su is None:
                eng.fail("expand(compress(u)) or standardize_uri(u) gives no result for a recognised u")
            else:
                eng.check_holds(_s(back) == _s(su), "expand(compress(u)) != standardize_uri(u) on a prefix-free map")
                # standard URIs are fixed points: compress/expand are inverse bijections on standard forms
                again = c.compress(back)
                eng.expect(again is not None and sym_eq(again, cu), "compress(expand(compress(u))) != compress(u)")
        if exp is None:
            return "unknown-curie"
        sc_ = c.standardize_curie(curie)
        back = c.compress(exp)
        if sc_ is None or back is None:
            eng.fail("compress(expand(c)) or standardize_curie(c) gives no result for a recognised CURIE")
            return "roundtrip"
        eng.check_holds(_s(back) == _s(sc_), "compress(expand(c)) != standardize_curie(c) on a prefix-free map")
        eng.check_holds(owner_of_prefix(recs, _s(P), lambda r: _s(back) == z3.Concat(_s(r.prefix), _s(delim), _s(I))),
                        "compress(expand(c)) is not canonical prefix + delimiter + identifier")
        return "roundtrip"
    return dict(lossless=lossless, inverse=inverse)[fn]
