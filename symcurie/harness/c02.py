"""C02 - CURIE expansion resolves any prefix or synonym to the canonical URI prefix."""
from __future__ import annotations

import z3

from .common import And, Or, Q, T, _s, fixture, mk_curie, owner_of_prefix, shape_jobs, sym_eq, unknown_prefix

EXPLANATION = (
    "_split, parse_curie, standardize_prefix, standardize_identifier, expand, expand_pair, expand_reference, expand_all, "
    "expand_pair_all, get_record and is_curie run on a symbolic strict converter and a symbolic CURIE P++delimiter++I that "
    "splits at that delimiter occurrence (P, I unconstrained otherwise: empty, Unicode, containing the delimiter in I). "
    "Oracle: P equal to a prefix or synonym of record r (unique by strictness) -> r.uri_prefix ++ I, otherwise no result; "
    "expand_all = canonical expansion first, then exactly one expansion per URI-prefix synonym. The empty string is a "
    "value of every prefix variable, so the rdflib-style default prefix is in scope.")
BOUNDS = dict(records="<= 4", prefix_synonyms="<= 2", uri_prefix_synonyms="<= 2", strings="unbounded length, full z3 alphabet",
              delimiter="':' and an arbitrary non-empty symbolic string")
OUTSIDE = ["strings without the delimiter (C08 decides how those fail)", "more than 3 records / 2 synonyms per side",
           "non-strict converters", "CURIE prefixes that contain the delimiter (excluded by the quantifier)"]
ASSUMPTIONS = ["pydantic validation modelled by the BaseModel stub; validator bodies are the real source",
               "pytrie contract stub (not exercised by expansion)",
               "strict converter precondition: prefixes pairwise distinct, URI prefixes pairwise distinct",
               "no CURIE prefix contains the delimiter (quantifier precondition)"]

SHAPES = [
    ("expand", [[1, 1]], False, Q), ("expand", [[1, 1]], True, Q), ("expand", [[1, 0], [0, 1]], False, Q),
    ("expand", [[1, 0], [0, 1]], True, Q),
    ("expand", [[1, 1]], False, Q, dict(params=dict(built="merge"))), ("expand", [[1, 0], [0, 1]], True, Q, dict(params=dict(built="merge"))),
    ("expand", [[1, 1]], False, Q, dict(params=dict(records_as="iter"))),
    ("expand", [[1, 0], [1, 0]], False, Q, dict(params=dict(built="grow"), shard=5)), ("expand", [[1, 1]], False, Q, dict(params=dict(built="used"))),
    ("expand", [[1, 0]], False, T, dict(params=dict(wide=12), budget=900)),
    ("expand", [[2, 2]], True, T), ("expand", [[1, 1], [1, 1]], True, T, dict(budget=900, shard=6)),
    ("expand", [[1, 0], [1, 0], [1, 0]], False, T, dict(budget=1500, shard=8)),
    ("expand", [[2, 2], [2, 2]], True, T, dict(budget=2400, shard=8)),
    ("expand", [[1, 1], [1, 1], [1, 1]], False, T, dict(budget=3000, shard=10)),
    ("expand", [[2, 1], [1, 2]], True, T, dict(budget=2400, shard=8, params=dict(built="merge"))),
    ("expand", [[1, 0]] * 4, False, T, dict(budget=3000, shard=10)),
]


def jobs(tier):
    return shape_jobs(SHAPES, tier, {"expand": ["known", "unknown"]})


def build(job):
    params = job["params"]

    def run(eng):
        api = eng.mods.api
        from .common import get_delim
        delim0 = get_delim(eng, params.get("symdelim", False))
        curie, P, I = mk_curie(eng, delim0)
        wcurie, WP, WI = mk_curie(eng, delim0, tag="w")      # an independent earlier query (any prefix, known or not)

        def warm(cv):
            for cu, pp, ii in ((curie, P, I), (wcurie, WP, WI)):
                cv.expand(cu), cv.expand_all(cu), cv.is_curie(cu), cv.expand_pair(pp, ii), cv.expand_pair_all(pp, ii)
                cv.standardize_prefix(pp), cv.get_record(pp)
        recs, delim, c = fixture(eng, params, warm=warm)
        p, i = _s(P), _s(I)
        got = c.expand(curie)
        pair = c.expand_pair(P, I)
        ref = c.expand_reference(api.ReferenceTuple(P, I))
        alls = c.expand_all(curie)
        pall = c.expand_pair_all(P, I)
        isc = c.is_curie(curie)
        if got is None:
            eng.check_holds(unknown_prefix(recs, p), "expand gives no result for a registered prefix or synonym")
            eng.expect(pair is None, "expand_pair disagrees with expand (value vs None)")
            eng.expect(ref is None, "expand_reference disagrees with expand (value vs None)")
            eng.expect(alls is None, "expand_all disagrees with expand (value vs None)")
            eng.expect(pall is None, "expand_pair_all disagrees with expand (value vs None)")
            eng.expect(isc is False, "is_curie true although expand gives no result")
            return "unknown"
        eng.check_holds(owner_of_prefix(recs, p, lambda r: _s(got) == z3.Concat(_s(r.uri_prefix), i)),
                        "expand is not canonical URI prefix of the prefix's record ++ identifier")
        eng.expect(isc is True, "is_curie false although expand succeeds")
        if pair is None or ref is None or alls is None or pall is None:
            eng.fail("expand_pair / expand_reference / expand_all / expand_pair_all give no result where expand does")
            return "known"
        eng.check_holds(And(_s(pair) == _s(got), _s(ref) == _s(got)), "expand_pair / expand_reference differ from expand")
        for name, lst in (("expand_all", list(alls)), ("expand_pair_all", list(pall))):
            def exact(r, lst=lst):
                syn = [z3.Concat(_s(s), i) for s in r.usyn]
                if len(lst) != 1 + len(syn):
                    return z3.BoolVal(False)
                rest = [_s(x) for x in lst[1:]]
                return And(_s(lst[0]) == z3.Concat(_s(r.uri_prefix), i),
                           [Or([x == y for y in syn]) for x in rest], [Or([x == y for x in rest]) for y in syn])
            eng.check_holds(owner_of_prefix(recs, p, exact),
                            f"{name} is not [canonical expansion] + one expansion per URI-prefix synonym")
        return "known"
    return run
