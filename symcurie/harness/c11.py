"""C11 - CURIE-prefix remapping renames records without losing information."""
from __future__ import annotations

import z3

from .common import (And, Or, Q, T, _s, all_p, as_set_eq, assume_strict, distinct, mk_recs, shape_jobs, sym_eq)

EXPLANATION = (
    "remap_curie_prefixes and _order_curie_remapping (validation, Counter/defaultdict bookkeeping, the topological while "
    "loop) with standardize_prefix / get_record run on a symbolic strict converter and a symbolic remapping of m pairs with "
    "distinct keys and free values (keys and values range over known canonical prefixes, known synonyms and unknown strings; "
    "chains and swaps arise when a key equals a value). Oracle: either one of DuplicateKeys / DuplicateValues / "
    "InconsistentMapping / CycleDetected is raised, or the result has the same number of records, every record keeps its "
    "canonical URI prefix and URI-synonym set, every CURIE prefix known before is known after, each pair old->new with old "
    "known and new unused before (and not competed for by another pair) makes new canonical for old's record, and a "
    "remapping none of whose pairs is applicable returns the same records.")
BOUNDS = dict(records="<= 3", prefix_synonyms="<= 1", remapping_pairs="<= 2 (3 records only with 1 pair), plus 3-pair chains k0->k1->k2->v over 3 records (thorough)", strings="unbounded, full z3 alphabet")
OUTSIDE = ["remappings of 3 or more pairs", "two records with synonyms together with 2 pairs", "non-strict converters"]
ASSUMPTIONS = ["pytrie contract stub", "pydantic BaseModel stub (model_copy deep-copies list fields)", "strict precondition",
               "remapping keys pairwise distinct (dict keys)"]

SHAPES = [
    ("remap", [[0, 0], [0, 0]], False, Q, dict(params=dict(m=1))),
    ("remap", [[1, 0]], False, Q, dict(params=dict(m=1))),
    ("remap", [[0, 0], [0, 0]], False, Q, dict(params=dict(m=2), budget=900, shard=7)),
    ("remap", [[1, 0]], False, T, dict(params=dict(m=2), budget=2400, shard=7)),
    ("remap", [[1, 0], [0, 0]], False, Q, dict(params=dict(m=2), budget=3000, shard=10)),
    ("remap", [[0, 0]] * 3, False, T, dict(params=dict(m=1), budget=1800, shard=6)),
    ("remap", [[1, 0], [0, 0]], False, T, dict(params=dict(m=1), budget=1800, shard=6)),
    ("remap", [[1, 1], [0, 1]], False, T, dict(params=dict(m=1), budget=2400, shard=7)),
    ("remap", [[0, 0]], False, Q, dict(params=dict(m=3, chain=True), budget=900, shard=6)),      # the 3-leg chain over one record
    # a three-leg chain k0 -> k1 -> k2 -> v (values are the next keys), which keeps a 3-pair remapping tractable
    ("remap", [[1, 0], [1, 0], [0, 0]], False, T, dict(params=dict(m=3, chain=True), budget=3000, shard=12)),
]

DOCUMENTED = ("DuplicateKeys", "DuplicateValues", "InconsistentMapping", "CycleDetected")


def jobs(tier):
    return shape_jobs(SHAPES, tier, {"remap": ["rejected", "ok"]})


def build(job):
    params = job["params"]

    def run(eng):
        api, rec = eng.mods.api, eng.mods.rec
        recs = mk_recs(eng, params["shape"])
        assume_strict(eng, recs)
        c = api.Converter([api.Record(**r.kwargs()) for r in recs])
        m = params["m"]
        keys = [eng.var(f"k{i}") for i in range(m)]
        vals = [eng.var(f"v{i}") for i in range(m)]
        if params.get("chain"):
            vals = keys[1:] + [vals[-1]]
        eng.assume(distinct(keys))
        # the region of a recorded (still reproducing) known finding is excluded from the claim
        for name, cond in known_regions(recs, keys, vals).items():
            eng.known(name, cond)
        remapping = eng.mkdict(list(zip(keys, vals)))
        try:
            c2 = rec.remap_curie_prefixes(c, remapping)
        except ValueError as e:
            eng.expect(type(e).__name__ in DOCUMENTED,
                       f"remap_curie_prefixes raised {type(e).__name__}, not one of its documented errors")
            return "rejected"
        eng.expect(len(c2.records) == len(recs), "remap_curie_prefixes changed the number of records")
        for r in recs:
            r2 = [x for x in c2.records if sym_eq(x.uri_prefix, r.uri_prefix)]
            eng.expect(len(r2) == 1 and as_set_eq(r2[0].uri_prefix_synonyms, r.usyn),
                       "a record lost or changed its canonical URI prefix or its URI-prefix synonyms")
        known_before = all_p(recs)
        for p in known_before:
            eng.expect(c2.standardize_prefix(p) is not None, "a CURIE prefix known before the remapping is forgotten afterwards")
        # applicable pairs whose target was unused
        allk = [_s(x) for x in known_before]
        applicable_any = []
        for i in range(m):
            k, v = _s(keys[i]), _s(vals[i])
            others_v = [_s(vals[j]) for j in range(m) if j != i]
            others_k = [_s(keys[j]) for j in range(m) if j != i]
            for r in recs:
                app = And(Or([k == _s(x) for x in r.all_p]), [v != x for x in allk], [v != o for o in others_v], [v != o for o in others_k])
                applicable_any.append(Or([k == _s(x) for x in r.all_p]))
                owner = c2.get_record(vals[i])
                ok = z3.BoolVal(False) if owner is None else And(_s(owner.prefix) == v, _s(owner.uri_prefix) == _s(r.uri_prefix))
                eng.check_holds(z3.Implies(app, ok), "an applicable pair old->new with unused new did not make new the canonical prefix of old's record")
        # nothing applicable -> same records
        unchanged = all(any(sym_eq(x.prefix, r.prefix) and sym_eq(x.uri_prefix, r.uri_prefix) and as_set_eq(x.prefix_synonyms, r.psyn)
                            for x in c2.records) for r in recs)
        if not unchanged:
            eng.check_holds(Or(applicable_any), "records changed although no key of the remapping is a known prefix")
        return "ok"
    return run


def known_regions(recs, keys, vals):
    """Characterising conditions of recorded known findings (see known_findings.json)."""
    known = [_s(x) for x in all_p(recs)]
    out = {}
    # C11-partial-chain: a key that is known and is also the value of another pair whose key is unknown:
    # the hand-over never happens but the old name is dropped.
    conds = []
    for i in range(len(keys)):
        for j in range(len(keys)):
            if i != j:
                conds.append(And(Or([_s(keys[i]) == x for x in known]), _s(vals[j]) == _s(keys[i]),
                                 And([_s(keys[j]) != x for x in known])))
    out["partial_chain"] = Or(conds)
    return out
