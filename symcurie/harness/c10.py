"""C10 - deriving a new converter never alters the converters it was derived from."""
from __future__ import annotations

import z3

from ..core import ASCII_ONLY
from .common import (And, Or, Q, T, _s, _val_eq, assume_strict, list_eq, lookup_structs, mk_recs, records_eq, shape_jobs,
                     snapshot_records, structs_eq, sym_eq)

EXPLANATION = (
    "chain, get_subconverter, remap_curie_prefixes, remap_uri_prefixes, rewire and discover(converter=...) run on symbolic "
    "strict input converters with symbolic arguments; afterwards a symbolic add_prefix(..., merge=True) (thorough: a second "
    "one) is applied to the derived converter. The proxies live inside ordinary Python objects, so Record objects shared by "
    "reference between converters are shared in the symbolic run exactly as in the real one. Every input converter is "
    "observed before the derivation, after it and after each follow-up operation: its records (all five fields), "
    "get_prefixes / get_uri_prefixes (with and without synonyms), bimap, the five lookup structures and its answers to "
    "expand / compress / expand_all / standardize_prefix on symbolic queries; all observations must be equal on every path.")
BOUNDS = dict(input_records="<= 2", synonyms_per_side="<= 1", derivation_argument_size="<= 2 entries / one extra converter",
              follow_up_operations="<= 2", strings="unbounded, full z3 alphabet")
OUTSIDE = ["inputs of more than 2 records", "follow-up operations other than add_prefix / add_record",
           "discover_from_rdf (rdflib parsing)"]
ASSUMPTIONS = ["pydantic BaseModel stub: model_copy / construction copy list fields as pydantic does; attribute assignment "
               "on non-frozen models is plain assignment", "pytrie contract stub", "strict precondition on the inputs"]

OPS = ["chain", "chain_second", "sub", "remap_curie", "remap_uri", "rewire", "discover"]


def jobs(tier):
    items = []
    for op in OPS:
        items.append((op, [[0, 0]], False, Q, dict(params=dict(m=1, follow=1))))
        items.append((op, [[1, 1]], False, Q, dict(params=dict(m=1, follow=1), budget=600, shard=5)))
        items.append((op, [[0, 0]], False, T, dict(params=dict(m=1, follow=1, queries=True), budget=1800, shard=6)))
        items.append((op, [[1, 1], [0, 0]], False, T, dict(params=dict(m=1, follow=1), budget=2400, shard=9)))
        if op.startswith(("remap", "rewire")):
            items.append((op, [[0, 1]], False, Q, dict(params=dict(m=0, follow=1))))       # the empty mapping
            items.append((op, [[0, 0], [0, 0]], False, T, dict(params=dict(m=2, follow=1), budget=2400, shard=8)))
        items.append((op, [[1, 0]], False, T, dict(params=dict(m=1, follow=2), budget=2400, shard=8)))
    return shape_jobs(items, tier, {op: ["derived"] for op in OPS})


def observe(c, queries):
    curie, uri, pfx = queries if queries else (None, None, None)
    return dict(
        records=snapshot_records(c),
        prefixes=sorted_list(c.get_prefixes()), prefixes_syn=sorted_list(c.get_prefixes(include_synonyms=True)),
        uris=sorted_list(c.get_uri_prefixes()), uris_syn=sorted_list(c.get_uri_prefixes(include_synonyms=True)),
        bimap=list(c.bimap.items()), structs=lookup_structs(c),
        answers=[c.expand(curie), c.compress(uri), c.expand_all(curie), c.standardize_prefix(pfx), c.standardize_uri(uri)]
        if queries else [])


def sorted_list(s):
    return list(s)


def same_obs(a, b):
    if not records_eq(a["records"], b["records"]):
        return "records"
    for k in ("prefixes", "prefixes_syn", "uris", "uris_syn"):
        if len(a[k]) != len(b[k]) or not all(any(sym_eq(x, y) for y in b[k]) for x in a[k]):
            return k
    if not list_eq(a["bimap"], b["bimap"]):
        return "bimap"
    if not structs_eq(a["structs"], b["structs"]):
        return "lookup structures"
    for x, y in zip(a["answers"], b["answers"]):
        if not _val_eq(x, y):
            return "query answers"
    return None


def build(job):
    op, params = job["fn"], job["params"]

    def run(eng):
        api, rec, disc = eng.mods.api, eng.mods.rec, eng.mods.disc
        recs = mk_recs(eng, params["shape"])
        assume_strict(eng, recs)
        c = api.Converter([api.Record(**r.kwargs()) for r in recs])
        # query answers are functions of the records and lookup structures, which are compared directly; the
        # (path-multiplying) symbolic queries are added only in the jobs that ask for them
        queries = (eng.var("qcurie"), eng.var("quri"), eng.var("qprefix")) if params.get("queries") else None
        inputs = [c]
        m = params.get("m", 1)
        ks = [eng.var(f"k{i}") for i in range(m)]
        vs = [eng.var(f"v{i}") for i in range(m)]
        if m > 1:
            eng.assume(z3.Distinct(*[_s(k) for k in ks]))
        mapping = eng.mkdict(list(zip(ks, vs)))
        other = None
        if op in ("chain", "chain_second"):
            other = api.Converter([api.Record(prefix=ks[0], uri_prefix=vs[0])])
            inputs.append(other)
        before = [observe(x, queries) for x in inputs]
        try:
            if op == "chain":
                d = api.chain([c, other])
            elif op == "chain_second":
                d = api.chain([other, c])
            elif op == "sub":
                d = c.get_subconverter(ks)
            elif op == "remap_curie":
                d = rec.remap_curie_prefixes(c, mapping)
            elif op == "remap_uri":
                d = rec.remap_uri_prefixes(c, mapping)
            elif op == "rewire":
                d = rec.rewire(c, mapping)
            else:
                # str.isalnum is decided over ASCII here (stated bound): the learned URI is an ASCII string
                eng.ascii_classes = True
                eng.assume(z3.InRe(_s(vs[0]), ASCII_ONLY))
                d = disc.discover([vs[0]], converter=c)
        except (ValueError, NotImplementedError):
            d = None
        for x, b in zip(inputs, before):
            diff = same_obs(b, observe(x, queries))
            if diff:
                eng.fail(f"{op}: an input converter's {diff} changed during the derivation")
                return "derived" if d is not None else "rejected"
            eng.ok()
        if d is None:
            return "rejected"
        eng.expect(all(d is not x for x in inputs), f"{op} returned one of its inputs instead of a new converter")
        for k in range(params.get("follow", 1)):
            try:
                if k == 0:
                    d.add_prefix(eng.var("np"), eng.var("nu"), merge=True)
                else:
                    d.add_record(api.Record(prefix=eng.var("np2"), uri_prefix=eng.var("nu2"), prefix_synonyms=[eng.var("np2s")]), merge=True)
            except ValueError:
                pass
            for x, b in zip(inputs, before):
                diff = same_obs(b, observe(x, queries))
                if diff:
                    eng.fail(f"{op}: an input converter's {diff} changed when the derived converter was modified afterwards")
                    return "derived"
                eng.ok()
        return "derived"
    return run
