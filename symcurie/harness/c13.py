"""C13 - every loader yields exactly the converter its input format denotes."""
from __future__ import annotations

import json
import os
import tempfile

import z3

from .common import And, Or, Q, T, _s, _val_eq, as_set_eq, distinct, records_eq, shape_jobs, snapshot_records, sym_eq

EXPLANATION = (
    "from_prefix_map, from_priority_prefix_map, from_reverse_prefix_map, from_extended_prefix_map, from_jsonld, from_rdflib, "
    "_prepare, upgrade_prefix_map and the load_* wrappers run on symbolic input structures: mappings of concrete size with "
    "symbolic keys and values (keys distinct, as any dict guarantees), JSON-LD contexts whose terms are symbolic strings, "
    "@prefix dictionaries, or other JSON values under symbolic keys (empty, '@'-prefixed, ordinary), an object with "
    ".namespaces(). Oracles per format as in the statement: every listed pair is present with the right owner; first of a "
    "priority list canonical; a shortest URI prefix of a reverse-map group canonical (z3 Length); lexicographically first "
    "CURIE prefix canonical in upgrade_prefix_map (z3 str.<=) and its output always accepted by the strict constructor; "
    "ignored JSON-LD terms really ignored; str / Path locations give the same records as the object. Symbolic contents "
    "cover every dictionary order of a concrete input.")
BOUNDS = dict(map_entries="<= 4 (quick <= 3)", priority_list_length="<= 3", jsonld_terms="<= 2 of mixed kinds", strings="unbounded, full z3 alphabet")
OUTSIDE = ["real file encoding and JSON text escaping (files are an in-memory table in the symbolic run; the replay uses real files)",
           "URL locations (_get_remote_json)", "from_shacl (rdflib parser and SPARQL engine)", "maps of more than 3 entries"]
ASSUMPTIONS = ["json.load/json.dump round-trip JSON values unchanged (in-memory file stub)", "pydantic BaseModel stub",
               "pytrie contract stub", "dict keys pairwise distinct"]

SHAPES = [
    ("prefix_map", 2, False, Q), ("priority", 2, False, Q), ("reverse", 2, False, Q), ("upgrade", 2, False, Q),
    ("jsonld", 2, False, Q), ("epm", 2, False, Q), ("rdflib", 2, False, Q), ("files", 2, False, Q),
    ("prefix_map", 3, False, T, dict(budget=1200, shard=6)), ("priority", 3, False, T, dict(budget=1800, shard=6)),
    ("reverse", 3, False, Q, dict(budget=2400, shard=6)), ("upgrade", 3, False, T, dict(budget=2400, shard=8)),
    ("jsonld", 3, False, T, dict(budget=2400, shard=8)),
    ("prefix_map", 4, False, T, dict(budget=2400, shard=8)), ("reverse", 4, False, T, dict(budget=3000, shard=10)),
    ("upgrade", 4, False, T, dict(budget=3000, shard=10)), ("rdflib", 3, False, T, dict(budget=1200, shard=6)), ("files", 3, False, T, dict(budget=1800, shard=6)),
]

EXPECT = {"prefix_map": ["ok"], "priority": ["ok"], "reverse": ["ok"], "upgrade": ["ok"], "jsonld": ["ok"], "epm": ["ok"],
          "rdflib": ["ok"], "files": ["ok"]}


def jobs(tier):
    out = []
    for item in SHAPES:
        fn, n, _, tiers = item[:4]
        extra = item[4] if len(item) > 4 else {}
        if tier in tiers:
            out.append(dict(name=f"{fn}:n={n}", fn=fn, params=dict(n=n), budget_s=extra.get("budget", 300),
                            shard_depth=extra.get("shard"), group=fn, expect_outcomes=EXPECT[fn]))
    return out


class NS:
    """Stands for an rdflib graph / namespace manager: only .namespaces() is used by from_rdflib."""

    def __init__(self, pairs):
        self._pairs = pairs

    def namespaces(self):
        return iter(self._pairs)


_TMP = []


def put_json(eng, name, obj, relative=False):
    """Make `obj` available as a JSON file; returns its location as str (relative=True: a bare file name in the current
    directory, which the concrete mode changes to a scratch directory)."""
    if eng.mods.symbolic:
        from .. import stubs
        stubs.FS[name] = [("json", obj)]
        return name
    d = tempfile.mkdtemp(prefix="symcurie-c13-")
    _TMP.append(d)
    p = os.path.join(d, name)
    with open(p, "w") as f:
        json.dump(obj, f, ensure_ascii=False)
    if relative:
        os.chdir(d)
        return name
    return p


def replace_json(eng, loc, obj):
    """Replace the content of the JSON file at `loc` by `obj` without changing its size or modification time."""
    if eng.mods.symbolic:
        from .. import stubs
        stubs.FS[loc] = [("json", obj)]
        return True
    st = os.stat(loc)
    with open(loc, "w") as f:
        json.dump(obj, f, ensure_ascii=False)
    if os.stat(loc).st_size != st.st_size:
        return False
    os.utime(loc, ns=(st.st_atime_ns, st.st_mtime_ns))
    return True


def rec_of(c, prefix):
    hits = [r for r in c.records if sym_eq(r.prefix, prefix)]
    return hits[0] if len(hits) == 1 else None


def build(job):
    fn, n = job["fn"], job["params"]["n"]

    def prefix_map(eng):
        api = eng.mods.api
        ks = [eng.var(f"k{i}") for i in range(n)]
        vs = [eng.var(f"v{i}") for i in range(n)]
        eng.assume(distinct(ks))
        eng.assume(distinct(vs))    # otherwise strict construction rejects (C04)
        ident = eng.var("ident")
        for loader in (api.Converter.from_prefix_map, api.load_prefix_map):
            c = loader(eng.mkdict(list(zip(ks, vs))))
            eng.expect(len(c.records) == n, "from_prefix_map does not yield one record per entry")
            for k, v in zip(ks, vs):
                r = rec_of(c, k)
                eng.expect(r is not None and sym_eq(r.uri_prefix, v) and not r.prefix_synonyms and not r.uri_prefix_synonyms,
                           "from_prefix_map: a listed pair is not a record (prefix, URI prefix) without synonyms")
                e = c.expand_pair(k, ident)
                eng.expect(e is not None and sym_eq(e, v + ident), "from_prefix_map: a listed prefix does not expand with its URI prefix")
                eng.expect(sym_eq(c.reverse_prefix_map.get(v), k), "from_prefix_map: a listed URI prefix does not compress to its prefix")
        return "ok"

    def priority(eng):
        api = eng.mods.api
        ks = [eng.var(f"k{i}") for i in range(2)]
        lists = [[eng.var(f"u{i}_{j}") for j in range(n if i == 0 else 1)] for i in range(2)]
        eng.assume(distinct(ks))
        eng.assume(distinct([u for l in lists for u in l]))
        c = api.Converter.from_priority_prefix_map(eng.mkdict(list(zip(ks, lists))))
        for k, l in zip(ks, lists):
            r = rec_of(c, k)
            eng.expect(r is not None and sym_eq(r.uri_prefix, l[0]), "from_priority_prefix_map: the first URI prefix is not canonical")
            eng.expect(r is not None and as_set_eq(r.uri_prefix_synonyms, l[1:]), "from_priority_prefix_map: the other URI prefixes are not exactly the synonyms")
            for u in l:
                eng.expect(sym_eq(c.reverse_prefix_map.get(u), k), "from_priority_prefix_map: a listed URI prefix does not compress to its prefix")
        return "ok"

    def reverse(eng):
        api = eng.mods.api
        us = [eng.var(f"u{i}") for i in range(n)]
        ps = [eng.var(f"p{i}") for i in range(n)]
        eng.assume(distinct(us))
        c = api.Converter.from_reverse_prefix_map(eng.mkdict(list(zip(us, ps))))
        for u, p in zip(us, ps):
            r = c.get_record(p)
            if r is None:
                eng.fail("from_reverse_prefix_map dropped a CURIE prefix")
                continue
            group = [u2 for u2, p2 in zip(us, ps) if sym_eq(p2, p)]
            eng.expect(as_set_eq([r.uri_prefix, *r.uri_prefix_synonyms], group),
                       "from_reverse_prefix_map: a record's URI prefixes are not exactly the group mapped to its prefix")
            eng.check_holds(And([z3.Length(_s(r.uri_prefix)) <= z3.Length(_s(g)) for g in group]),
                            "from_reverse_prefix_map: the canonical URI prefix is not a shortest one of its group")
            eng.expect(sym_eq(c.reverse_prefix_map.get(u), r.prefix) and sym_eq(r.prefix, p),
                       "from_reverse_prefix_map: a listed URI prefix does not compress to its prefix")
        return "ok"

    def upgrade(eng):
        api = eng.mods.api
        ks = [eng.var(f"k{i}") for i in range(n)]
        vs = [eng.var(f"v{i}") for i in range(n)]
        eng.assume(distinct(ks))
        recs = api.upgrade_prefix_map(eng.mkdict(list(zip(ks, vs))))
        try:
            c = api.Converter(recs)
        except ValueError as e:
            eng.fail(f"upgrade_prefix_map produced records a strict converter rejects ({type(e).__name__})")
            return "ok"
        for k, v in zip(ks, vs):
            r = c.get_record(k)
            if r is None or not sym_eq(r.uri_prefix, v):
                eng.fail("upgrade_prefix_map lost a (prefix, URI prefix) pair")
                continue
            group = [k2 for k2, v2 in zip(ks, vs) if sym_eq(v2, v)]
            eng.check_holds(And([_s(r.prefix) <= _s(g) for g in group]),
                            "upgrade_prefix_map: the canonical prefix is not the lexicographically first of its group")
            eng.expect(as_set_eq([r.prefix, *r.prefix_synonyms], group), "upgrade_prefix_map: prefixes of a record are not exactly its group")
        return "ok"

    def jsonld(eng):
        api = eng.mods.api
        items, expect = [], []
        keys = [eng.var(f"k{i}") for i in range(n)]
        eng.assume(distinct(keys))
        uris = [eng.var(f"v{i}") for i in range(n)]
        eng.assume(distinct(uris))
        for i in range(n):
            kind = eng.choice(f"kind{i}", ["str", "prefixdict", "plaindict", "prefixfalse", "number"])
            k, v = keys[i], uris[i]
            val = {"str": v, "prefixdict": eng.mkdict([("@id", v), ("@prefix", True)]),
                   "plaindict": eng.mkdict([("@id", v)]), "prefixfalse": eng.mkdict([("@id", v), ("@prefix", False)]),
                   "number": 5}[kind]
            items.append((k, val))
            taken = kind in ("str", "prefixdict")
            if eng.branch(z3.Length(_s(k)) == 0) if eng.mods.symbolic else (k == ""):
                taken = False
            elif eng.branch(z3.PrefixOf(z3.StringVal("@"), _s(k))) if eng.mods.symbolic else k.startswith("@"):
                taken = False
            if taken:
                expect.append((k, v))
        data = eng.mkdict([("@context", eng.mkdict(items))])
        for loader in (api.Converter.from_jsonld, api.load_jsonld_context):
            c = loader(data)
            eng.expect(len(c.records) == len(expect), "from_jsonld: number of records differs from the number of prefix terms")
            for k, v in expect:
                r = rec_of(c, k)
                eng.expect(r is not None and sym_eq(r.uri_prefix, v), "from_jsonld: a string / @prefix term is not loaded with its URI prefix")
        return "ok"

    def epm(eng):
        api = eng.mods.api
        p, u, ps, us, pat = [eng.var(x) for x in ("p", "u", "ps", "us", "pat")]
        q, w = eng.var("q"), eng.var("w")
        eng.assume(And(distinct([p, ps, q]), distinct([u, us, w])))
        d1 = eng.mkdict([("prefix", p), ("uri_prefix", u), ("prefix_synonyms", [ps]), ("uri_prefix_synonyms", [us]), ("pattern", pat)])
        r2 = api.Record(prefix=q, uri_prefix=w)
        kind = eng.choice("input_kind", ["list", "tuple", "iter"])      # the loaders take any Iterable of records / dicts
        for loader in (api.Converter.from_extended_prefix_map, api.load_extended_prefix_map):
            c = loader({"list": list, "tuple": tuple, "iter": iter}[kind]([d1, r2]))
            a, b = rec_of(c, p), rec_of(c, q)
            eng.expect(len(c.records) == 2 and a is not None and b is not None, "from_extended_prefix_map: records missing")
            if a is not None:
                eng.expect(sym_eq(a.uri_prefix, u) and _val_eq(list(a.prefix_synonyms), [ps]) and _val_eq(list(a.uri_prefix_synonyms), [us])
                           and a.pattern is not None and sym_eq(a.pattern, pat), "from_extended_prefix_map: a dictionary record is not loaded field by field")
            if b is not None:
                eng.expect(sym_eq(b.uri_prefix, w) and not b.prefix_synonyms and not b.uri_prefix_synonyms and b.pattern is None,
                           "from_extended_prefix_map: a Record instance is not taken as is")
        return "ok"

    def rdflib(eng):
        api = eng.mods.api
        ks = [eng.var(f"k{i}") for i in range(n)]
        vs = [eng.var(f"v{i}") for i in range(n)]
        eng.assume(distinct(ks))
        eng.assume(distinct(vs))
        c = api.Converter.from_rdflib(NS(list(zip(ks, vs))))
        eng.expect(len(c.records) == n, "from_rdflib does not yield one record per namespace binding")
        for k, v in zip(ks, vs):
            r = rec_of(c, k)
            eng.expect(r is not None and sym_eq(r.uri_prefix, v), "from_rdflib: a namespace binding is not loaded")
        return "ok"

    def files(eng):
        api = eng.mods.api
        ks = [eng.var(f"k{i}") for i in range(n)]
        vs = [eng.var(f"v{i}") for i in range(n)]
        eng.assume(distinct(ks))
        eng.assume(distinct(vs))
        eng.assume(And([And(z3.Length(_s(k)) > 0, z3.Not(z3.PrefixOf(z3.StringVal("@"), _s(k)))) for k in ks]))
        pm = eng.mkdict(list(zip(ks, vs)))
        epm_ = [eng.mkdict([("prefix", k), ("uri_prefix", v)]) for k, v in zip(ks, vs)]
        ctx = eng.mkdict([("@context", pm)])
        rpm = eng.mkdict(list(zip(vs, ks)))
        prio = eng.mkdict([(k, [v]) for k, v in zip(ks, vs)])
        # (file names that merely begin like a URL scheme are still local files)
        cases = [("https_pm.json", pm, api.Converter.from_prefix_map), ("http_epm.json", epm_, api.Converter.from_extended_prefix_map),
                 ("ftp_ctx.json", ctx, api.Converter.from_jsonld), ("rpm.json", rpm, api.Converter.from_reverse_prefix_map),
                 ("prio.json", prio, api.Converter.from_priority_prefix_map)]
        cwd = os.getcwd()
        try:
            for name, obj, loader in cases:
                base = snapshot_records(loader(obj))
                loc = put_json(eng, name, obj, relative=True)
                for what, arg in (("str location", loc), ("Path", api.Path(loc))):
                    try:
                        got = snapshot_records(loader(arg))
                    except (ValueError, OSError) as e:
                        eng.fail(f"{loader.__name__}: loading a local JSON file given as {what} raised {type(e).__name__}")
                        continue
                    eng.expect(records_eq(base, got), f"{loader.__name__}: loading from a {what} differs from loading the object")
        finally:
            os.chdir(cwd)
        # the file is replaced by different data of the same size with an unchanged timestamp: a load must see the new data
        if not eng.mods.symbolic and any(len(a.encode()) != len(b.encode()) for a, b in zip(vs, vs[::-1])):
            return "ok"
        pm2 = eng.mkdict(list(zip(ks, vs[::-1])))
        loc = put_json(eng, "pm2.json", pm) if True else None
        api.Converter.from_prefix_map(loc)
        if replace_json(eng, loc, pm2):
            want = snapshot_records(api.Converter.from_prefix_map(pm2))
            eng.expect(records_eq(want, snapshot_records(api.Converter.from_prefix_map(loc))) and records_eq(want, snapshot_records(api.Converter.from_prefix_map(api.Path(loc)))),
                       "from_prefix_map: a file whose content was replaced is loaded with its old content")
        return "ok"

    return dict(prefix_map=prefix_map, priority=priority, reverse=reverse, upgrade=upgrade, jsonld=jsonld, epm=epm,
                rdflib=rdflib, files=files)[fn]
