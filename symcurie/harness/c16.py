"""C16 - bulk operations equal element-wise scalar calls and fail atomically (partially applicable)."""
from __future__ import annotations

import csv as _csv
import os
import tempfile

import z3

from .common import And, Or, Q, T, _s, _val_eq, assume_strict, list_eq, mk_recs, shape_jobs, sym_eq

EXPLANATION = (
    "pd_compress, pd_expand, pd_standardize_prefix / _curie / _uri, file_compress, file_expand and _file_helper run on a "
    "symbolic strict converter and a table of symbolic string cells with symbolic strict / passthrough / ambiguous flags. "
    "Data frames are a column model (df[col].map(f) applies f cell by cell, df[col] = ... replaces or adds a column); files "
    "are an in-memory table of rows whose open(..., 'w') truncates at open time, as the OS does. Oracle: the chosen column "
    "equals the corresponding scalar method with the same flags cell by cell (no result -> NA / empty cell), every other "
    "cell, the header and the row order are untouched, target_column leaves the source column intact; if any cell makes "
    "the scalar call raise, the bulk call raises too and - for files, with the failing row at a symbolic position - the "
    "file table entry is identical to its pre-state and was never opened for writing. 'warm' jobs first let the same converter "
    "serve an earlier lenient (strict=False, own passthrough flag) bulk call over independent symbolic cells that may equal "
    "the later ones, so state remembered by the bulk layer between calls is part of what is explored.")
BOUNDS = dict(rows="<= 3 (quick 2)", columns="2-3", records="<= 2", strings="unbounded, full z3 alphabet",
              separators="tab and one custom separator (passed through to the csv layer)")
OUTSIDE = ["real pandas NA / dtype behaviour beyond 'cell by cell, None = NA'", "csv quoting and byte-for-byte file content beyond "
           "'never opened for writing / same rows'", "tables of more than 3 rows"]
ASSUMPTIONS = ["pandas column model (stubs.DataFrame / Series.map)", "csv stub: a file is a list of rows of cells; opening for 'w' truncates immediately",
               "pytrie contract stub, pydantic BaseModel stub", "strict precondition; CURIE prefixes free of the delimiter"]

PD_OPS = ["compress", "expand", "standardize_prefix", "standardize_curie", "standardize_uri"]

PRETTY_SAMPLES = True   # path witnesses replayed through real files should be printable


def jobs(tier):
    items = []
    for op in PD_OPS:
        items.append((f"pd_{op}", [[0, 0]], False, Q, dict(params=dict(rows=2), budget=600, shard=5)))
        items.append((f"pd_{op}", [[1, 1]], False, T, dict(params=dict(rows=2), budget=2400, shard=8)))
    for op in ("compress", "expand"):
        items.append((f"file_{op}", [[0, 0]], False, Q, dict(params=dict(rows=2, header=True, column=1), budget=600, shard=6)))
        items.append((f"file_{op}", [[0, 0]], False, Q, dict(params=dict(rows=1, header=False, column=0, sep="|"), budget=600)))
        items.append((f"file_{op}", [[0, 0]], False, Q, dict(params=dict(rows=1, header=True, column=-1), budget=600)))     # 'last column'
        items.append((f"file_{op}", [[1, 1]], False, T, dict(params=dict(rows=3, header=True, column=2, ncols=3), budget=3000, shard=9)))
        items.append((f"file_{op}", [[0, 0], [0, 0]], False, T, dict(params=dict(rows=2, header=False, column=0), budget=3000, shard=9)))
    # history: an earlier lenient bulk call on the same converter over independent cells (hidden state of the bulk layer)
    for op in ("compress", "expand"):
        items.append((f"pd_{op}", [[0, 0]], False, Q, dict(params=dict(rows=1, warm=True), budget=600, shard=6)))
        items.append((f"file_{op}", [[0, 0]], False, Q, dict(params=dict(rows=1, header=False, column=0, warm=True), budget=600, shard=6)))
        items.append((f"pd_{op}", [[1, 0]], False, T, dict(params=dict(rows=2, warm=True), budget=2400, shard=9)))
        items.append((f"file_{op}", [[1, 0]], False, T, dict(params=dict(rows=2, header=True, column=1, warm=True), budget=2400, shard=9)))
    for op in ("standardize_prefix", "standardize_curie", "standardize_uri"):
        items.append((f"pd_{op}", [[1, 0]], False, T, dict(params=dict(rows=1, warm=True), budget=1200, shard=8)))
    exp = {}
    for it in items:
        exp[it[0]] = ["ok", "raised"]
    return shape_jobs(items, tier, exp)


def scalar_for(conv, op, ambiguous):
    if op == "compress":
        return conv.compress_or_standardize if ambiguous else conv.compress
    if op == "expand":
        return conv.expand_or_standardize if ambiguous else conv.expand
    return getattr(conv, op)


def awkward(cells):
    # lone carriage returns and NUL are not carried unchanged by the csv module / universal newlines: outside the claim
    return any(any(ch in c for ch in '\r\x00') for c in cells)


def build(job):
    fn, params = job["fn"], job["params"]
    kind, op = fn.split("_", 1)

    def fixture(eng):
        api = eng.mods.api
        recs = mk_recs(eng, params["shape"])
        assume_strict(eng, recs)
        eng.assume(And([z3.Not(z3.Contains(_s(p), z3.StringVal(":"))) for r in recs for p in r.all_p]))
        conv = api.Converter([api.Record(**r.kwargs()) for r in recs])
        strict, passthrough = eng.flag("strict"), eng.flag("passthrough")
        ambiguous = eng.flag("ambiguous") if op in ("compress", "expand") else False
        return conv, strict, passthrough, ambiguous

    def scalar_results(f, cells, strict, passthrough):
        out = []
        for c in cells:
            try:
                out.append(("value", f(c, strict=strict, passthrough=passthrough)))
            except ValueError as e:
                out.append(("raised", type(e).__name__))
        return out

    def pd(eng):
        conv, strict, passthrough, ambiguous = fixture(eng)
        n = params["rows"]
        a = [eng.var(f"a{i}") for i in range(n)]
        b = [eng.var(f"b{i}") for i in range(n)]
        target = eng.choice("target_column", [None, "c", 0, ""])      # including labels that are falsy
        use_target = target is not None
        if eng.mods.symbolic:
            from .. import stubs
            mkdf = stubs.DataFrame
            df = mkdf({"a": a, "b": b})

            def col(name):
                return list(df.cols[name]) if name in df.cols else None
        else:
            import pandas

            def mkdf(d):
                return pandas.DataFrame(d, dtype=object)
            df = mkdf({"a": a, "b": b})

            def col(name):
                if name not in df.columns:
                    return None
                return [None if pandas.isna(x) else x for x in df[name].tolist()]
        want = scalar_results(scalar_for(conv, op, ambiguous), b, strict, passthrough)
        kw = dict(column="b", strict=strict, passthrough=passthrough)
        if use_target:
            kw["target_column"] = target
        if op in ("compress", "expand"):
            kw["ambiguous"] = ambiguous
        method = getattr(conv, f"pd_{op}")
        if params.get("warm"):
            # the same converter already served a lenient bulk call over other (possibly equal) cells, with its own flags
            wkw = dict(column="b", strict=False, passthrough=eng.flag("warm_passthrough"))
            if op in ("compress", "expand"):
                wkw["ambiguous"] = ambiguous
            method(mkdf({"a": [eng.var("wa")], "b": [eng.var("w0")]}), **wkw)
        try:
            if op in ("compress", "expand"):
                method(df, **kw)
            else:
                method(df, **kw)
        except ValueError as e:
            first = next((w for w in want if w[0] == "raised"), None)
            eng.expect(first is not None and first[1] == type(e).__name__, f"pd_{op} raised {type(e).__name__} although the scalar calls do not")
            return "raised"
        eng.expect(all(w[0] == "value" for w in want), f"pd_{op} did not raise although a scalar call does")
        got = col(target if use_target else "b")
        eng.expect(got is not None and len(got) == n and all(_val_eq(g, w[1]) for g, w in zip(got, want) if w[0] == "value"),
                   f"pd_{op}: the column is not the element-wise scalar result")
        eng.expect(list_eq(col("a"), a) and (not use_target or list_eq(col("b"), b)), f"pd_{op} changed another column (or the source column despite target_column)")
        return "ok"

    def file_(eng):
        from .. import stubs
        api = eng.mods.api
        conv, strict, passthrough, ambiguous = fixture(eng)
        n, ncols, column, header = params["rows"], params.get("ncols", 2), params["column"], params["header"]
        sep = params.get("sep")
        rows = [[eng.var(f"c{i}_{j}") for j in range(ncols)] for i in range(n)]
        head = [f"h{j}" for j in range(ncols)]
        table = ([head] if header else []) + rows
        if eng.mods.symbolic:
            path = "table.tsv"
            stubs.fs_reset()
            stubs.FS[path] = [("row", list(r)) for r in table]

            def read():
                # read the in-memory file back the way a reader with the same dialect would
                return [list(r) for r in stubs._Reader(stubs._File(path), delimiter=sep or "\t")]
        else:
            if awkward([c for r in rows for c in r]):
                return "<precondition-not-met: cells the csv dialect cannot carry unchanged>"
            path = os.path.join(tempfile.mkdtemp(prefix="symcurie-c16-"), "table.tsv")
            with open(path, "w", newline="") as f:
                _csv.writer(f, delimiter=sep or "\t").writerows(table)

            def read():
                with open(path, newline="") as f:
                    return [list(r) for r in _csv.reader(f, delimiter=sep or "\t")]
        want = scalar_results(scalar_for(conv, op, ambiguous), [r[column] for r in rows], strict, passthrough)
        kw = dict(strict=strict, passthrough=passthrough, ambiguous=ambiguous, header=header)
        if sep:
            kw["sep"] = sep
        if params.get("warm"):
            # an earlier lenient call on the same converter over another file with independent (possibly equal) cells
            wrow = [eng.var(f"w{j}") for j in range(ncols)]
            if eng.mods.symbolic:
                wpath = "warm.tsv"
                stubs.FS[wpath] = [("row", list(wrow))]
            else:
                if awkward(wrow):
                    return "<precondition-not-met: cells the csv dialect cannot carry unchanged>"
                wpath = os.path.join(os.path.dirname(path), "warm.tsv")
                with open(wpath, "w", newline="") as f:
                    _csv.writer(f, delimiter=sep or "\t").writerows([wrow])
            wkw = dict(kw, strict=False, passthrough=eng.flag("warm_passthrough"), header=False)
            getattr(conv, f"file_{op}")(wpath, column, **wkw)
            if eng.mods.symbolic:
                del stubs.WRITES[:]
        before = read()
        try:
            getattr(conv, f"file_{op}")(path, column, **kw)
        except ValueError as e:
            eng.expect(any(w[0] == "raised" for w in want), f"file_{op} raised {type(e).__name__} although no scalar call does")
            eng.expect(list_eq(before, read()) and (not eng.mods.symbolic or not stubs.WRITES),
                       f"file_{op} raised and left the file changed (it must be what it was before the call)")
            return "raised"
        eng.expect(all(w[0] == "value" for w in want), f"file_{op} did not raise although a scalar call does")
        after = read()
        exp = ([head] if header else []) + [
            [("" if (w[1] is None) else w[1]) if j == column % ncols else c for j, c in enumerate(r)] for r, w in zip(rows, want) if w[0] == "value"]
        ok = len(after) == len(exp) and all(len(x) == len(y) and all(_cell_eq(p, q) for p, q in zip(x, y)) for x, y in zip(after, exp))
        eng.expect(ok, f"file_{op}: the file is not the element-wise scalar result with all other cells, the header and the row order preserved")
        return "ok"

    return pd if kind == "pd" else file_


def _cell_eq(p, q):
    # `func(cell) or ""`: an empty result is written as an empty cell
    return sym_eq(p, q)
