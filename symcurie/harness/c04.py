"""C04 - strict construction enforces one owner per CURIE prefix and per URI prefix (iff)."""
from __future__ import annotations

import z3

from .common import And, Or, Q, T, _s, all_p, all_u, distinct, mk_recs, shape_jobs, sym_eq

EXPLANATION = (
    "Record's validators, _get_duplicate_uri_prefixes, _get_duplicate_prefixes, Converter.__init__ (strict branch), bimap, "
    "reverse_bimap, get_prefixes, get_uri_prefixes and the loaders from_extended_prefix_map / from_prefix_map / "
    "from_priority_prefix_map / from_reverse_prefix_map / from_jsonld run on symbolic records WITHOUT any distinctness "
    "assumption. Oracle (independent formula): clashU = some URI prefix or synonym equal across two different records, "
    "clashP likewise for CURIE prefixes. The constructor must raise DuplicateURIPrefixes iff clashU, else DuplicatePrefixes "
    "iff clashP, else succeed; reported duplicates must name a string both records contain; on success bimap/reverse_bimap "
    "are inverse bijections and every prefix / URI prefix resolves to exactly one record. Record(...) must reject exactly "
    "the records listing their canonical value among their own synonyms.")
BOUNDS = dict(records="<= 3", synonyms_per_side="<= 1 (thorough: 2 records with 1+1 each)", strings="unbounded, full z3 alphabet",
              loader_inputs="maps of <= 3 entries, priority lists of <= 2")
OUTSIDE = ["more than 3 records", "synonym lists with internal repetitions (not addressed by the statement)",
           "strict=False converters", "from_rdflib / from_shacl (rdflib objects)"]
ASSUMPTIONS = ["pydantic BaseModel stub: fields validated in declaration order, validator bodies are the real source",
               "pytrie contract stub", "dict inputs have pairwise distinct keys (as any dict has)"]

SHAPES = [
    ("construct", [[0, 0], [0, 0]], False, Q), ("construct", [[1, 1], [0, 0]], False, Q), ("construct", [[0, 0]] * 3, False, Q),
    ("record", [[2, 2]], False, Q),
    ("loaders", [[0, 0], [0, 0]], False, Q),
    ("rebuild", [[1, 1]], False, Q),
    ("reverse", [[0, 0]] * 3, False, Q, dict(shard=4)),
    ("again", [[0, 0], [0, 0]], False, Q),
    ("construct", [[1, 1], [1, 1]], False, T, dict(budget=2400, shard=8)),
    ("construct", [[1, 0]] * 3, False, T, dict(budget=2400, shard=9)),
    ("construct", [[0, 1]] * 3, False, T, dict(budget=2400, shard=9)),
    ("loaders", [[0, 0]] * 3, False, T, dict(budget=1800, shard=6)),
]


def jobs(tier):
    return shape_jobs(SHAPES, tier, {"construct": ["ok", "dupU", "dupP"], "record": ["valid", "invalid"],
                                     "loaders": ["done"], "rebuild": ["dupP", "dupU"], "reverse": ["done"], "again": ["ok", "dupU"]})


def clash(groups):
    return Or([_s(a) == _s(b) for i in range(len(groups)) for j in range(i + 1, len(groups))
               for a in groups[i] for b in groups[j]])


def check_success(eng, c, recs):
    n = len(recs)
    bm, rbm = c.bimap, c.reverse_bimap
    eng.expect(len(bm) == n and len(rbm) == n, "bimap / reverse_bimap do not have one entry per record")
    for k, v in bm.items():
        eng.expect(sym_eq(rbm[v], k), "bimap and reverse_bimap are not mutually inverse")
    for p in c.get_prefixes(include_synonyms=True):
        owners = [r for r in c.records if sym_eq(r.prefix, p) or any(sym_eq(p, s) for s in r.prefix_synonyms)]
        eng.expect(len(owners) == 1, "a CURIE prefix of a strict converter does not resolve to exactly one record")
    for u in c.get_uri_prefixes(include_synonyms=True):
        owners = [r for r in c.records if sym_eq(r.uri_prefix, u) or any(sym_eq(u, s) for s in r.uri_prefix_synonyms)]
        eng.expect(len(owners) == 1, "a URI prefix of a strict converter does not resolve to exactly one record")


def construct_and_check(eng, make, gu, gp, recs, what):
    api = eng.mods.api
    try:
        c = make()
    except api.DuplicateURIPrefixes as e:
        eng.check_holds(clash(gu), f"{what}: DuplicateURIPrefixes raised although no URI prefix is shared by two records")
        check_dups(eng, e, "uri")
        return "dupU"
    except api.DuplicatePrefixes as e:
        eng.check_holds(And(z3.Not(clash(gu)), clash(gp)),
                        f"{what}: DuplicatePrefixes raised without a CURIE-prefix clash, or although URI prefixes clash (URI clashes come first)")
        check_dups(eng, e, "curie")
        return "dupP"
    eng.check_holds(And(z3.Not(clash(gu)), z3.Not(clash(gp))), f"{what}: strict construction accepted records that share a prefix or URI prefix")
    check_success(eng, c, recs)
    return "ok"


def check_dups(eng, e, side):
    if not e.duplicates:
        eng.fail("duplicate error without listed duplicates")
        return
    for d in e.duplicates:
        r1, r2, s = d[0], d[1], d[2]
        g1 = r1._all_uri_prefixes if side == "uri" else r1._all_prefixes
        g2 = r2._all_uri_prefixes if side == "uri" else r2._all_prefixes
        eng.expect(r1 is not r2 and any(sym_eq(s, x) for x in g1) and any(sym_eq(s, x) for x in g2),
                   "a reported duplicate is not contained in both reported records")


def build(job):
    fn, params = job["fn"], job["params"]

    def construct(eng):
        api = eng.mods.api
        recs = mk_recs(eng, params["shape"])
        # valid single records only (the Record-level rule is the subject of the 'record' job)
        for r in recs:
            eng.assume(And([_s(r.prefix) != _s(s) for s in r.psyn], [_s(r.uri_prefix) != _s(s) for s in r.usyn]))
        records = [api.Record(**r.kwargs()) for r in recs]
        gu, gp = [r.all_u for r in recs], [r.all_p for r in recs]
        out = construct_and_check(eng, lambda: api.Converter(records), gu, gp, recs, "Converter(records)")
        # the extended-prefix-map loader must take the same decision on the same data given as dicts
        out2 = construct_and_check(eng, lambda: api.Converter.from_extended_prefix_map([eng.mkdict(list(r.kwargs().items())) for r in recs]),
                                   gu, gp, recs, "from_extended_prefix_map")
        eng.expect(out == out2, "from_extended_prefix_map decides differently from Converter(records)")
        return out

    def record(eng):
        api = eng.mods.api
        (r,) = mk_recs(eng, params["shape"])
        bad = Or([_s(r.prefix) == _s(s) for s in r.psyn], [_s(r.uri_prefix) == _s(s) for s in r.usyn])
        try:
            obj = api.Record(**r.kwargs())
        except ValueError:
            eng.check_holds(bad, "Record rejected although neither canonical value is among its own synonyms")
            return "invalid"
        eng.check_holds(z3.Not(bad), "Record accepted its canonical prefix / URI prefix among its own synonyms")
        # ... and the stored record (after whatever normalisation the model applies) does not list them either
        eng.expect(not any(sym_eq(obj.prefix, s) for s in obj.prefix_synonyms) and not any(sym_eq(obj.uri_prefix, s) for s in obj.uri_prefix_synonyms),
                   "a constructed Record lists its own canonical prefix / URI prefix among its synonyms")
        return "valid"

    def loaders(eng):
        api = eng.mods.api
        n = len(params["shape"])
        ks = [eng.var(f"k{i}") for i in range(n)]
        vs = [eng.var(f"v{i}") for i in range(n)]
        ws = [eng.var(f"w{i}") for i in range(n)]
        eng.assume(distinct(ks))
        # prefix map: one record per key; only URI prefixes can clash
        gu, gp = [[v] for v in vs], [[k] for k in ks]
        recs = [type("R", (), dict(all_u=[v], all_p=[k]))() for k, v in zip(ks, vs)]
        construct_and_check(eng, lambda: api.Converter.from_prefix_map(eng.mkdict(list(zip(ks, vs)))), gu, gp, recs, "from_prefix_map")
        # JSON-LD context with plain string terms (keys non-empty, not starting with '@')
        eng.assume(And([And(z3.Length(_s(k)) > 0, z3.Not(z3.PrefixOf(z3.StringVal("@"), _s(k)))) for k in ks]))
        ctx = eng.mkdict([("@context", eng.mkdict(list(zip(ks, vs))))])
        construct_and_check(eng, lambda: api.Converter.from_jsonld(ctx), gu, gp, recs, "from_jsonld")
        # priority prefix map: lists of two URI prefixes; a list repeating its head is an invalid single record
        valid_single = And([_s(v) != _s(w) for v, w in zip(vs, ws)])
        gu2 = [[v, w] for v, w in zip(vs, ws)]
        try:
            construct_and_check(eng, lambda: api.Converter.from_priority_prefix_map(eng.mkdict([(k, [v, w]) for k, v, w in zip(ks, vs, ws)])),
                                gu2, gp, recs, "from_priority_prefix_map")
            eng.check_holds(valid_single, "from_priority_prefix_map accepted a record whose URI prefix is its own synonym")
        except ValueError as e:
            if isinstance(e, (api.DuplicateURIPrefixes, api.DuplicatePrefixes)):
                raise
            eng.check_holds(z3.Not(valid_single), "from_priority_prefix_map rejected a well-formed priority map")
        # reverse prefix map: keys are URI prefixes (distinct), values CURIE prefixes: never a clash
        try:
            c = api.Converter.from_reverse_prefix_map(eng.mkdict(list(zip(ks, vs))))
            check_success(eng, c, c.records)
        except ValueError:
            eng.fail("from_reverse_prefix_map rejected a reverse prefix map (distinct URI prefixes can never clash)")
        return "done"
    def reverse(eng):
        """from_reverse_prefix_map alone, on 3 entries (grouping by CURIE prefix; values may coincide, also up to case)."""
        api = eng.mods.api
        n = len(params["shape"])
        ks = [eng.var(f"k{i}") for i in range(n)]
        vs = [eng.var(f"v{i}") for i in range(n)]
        eng.assume(distinct(ks))
        try:
            c = api.Converter.from_reverse_prefix_map(eng.mkdict(list(zip(ks, vs))))
        except ValueError:
            eng.fail("from_reverse_prefix_map rejected a reverse prefix map (distinct URI prefixes can never clash)")
            return "done"
        check_success(eng, c, c.records)
        # every entry is registered: its URI prefix belongs to the record of its CURIE prefix
        for k, v in zip(ks, vs):
            owners = [r for r in c.records if sym_eq(r.prefix, v)]
            eng.expect(len(owners) == 1 and (sym_eq(owners[0].uri_prefix, k) or any(sym_eq(k, s) for s in owners[0].uri_prefix_synonyms)),
                       "an entry of the reverse prefix map is not registered with the record of its CURIE prefix")
        return "done"

    def again(eng):
        """A second, independent construction from a prefix map after a converter loaded from an overlapping prefix map
        has been extended in place: the decision depends on the second map alone."""
        api = eng.mods.api
        k0, v0, k1, v1, ps, w = [eng.var(x) for x in ("k0", "v0", "k1", "v1", "ps", "w")]
        eng.assume(And(_s(k0) != _s(k1), distinct([k0, ps]), distinct([v0, w])))
        loader = eng.choice("loader", ["from_prefix_map", "load_prefix_map"])
        load = api.Converter.from_prefix_map if loader == "from_prefix_map" else api.load_prefix_map
        first = load(eng.mkdict([(k0, v0)]))
        first.add_prefix(k0, w, prefix_synonyms=[ps], merge=True)
        recs = [type("R", (), dict(all_u=[v0], all_p=[k0]))(), type("R", (), dict(all_u=[v1], all_p=[k1]))()]
        return construct_and_check(eng, lambda: load(eng.mkdict([(k0, v0), (k1, v1)])), [[v0], [v1]], [[k0], [k1]], recs,
                                   "a second " + loader)

    def rebuild(eng):
        """Records that gained synonyms after they were first used (in-place merge) must still be described completely
        to a strict constructor: a second owner of an acquired synonym is a clash."""
        api = eng.mods.api
        (r,) = mk_recs(eng, params["shape"])
        eng.assume(And(distinct(r.all_p), distinct(r.all_u)))
        c = api.Converter([api.Record(prefix=r.prefix, uri_prefix=r.uri_prefix)])
        c.add_prefix(r.psyn[0], r.uri_prefix, merge=True)          # acquires a CURIE-prefix synonym
        c.add_prefix(r.prefix, r.usyn[0], merge=True)              # acquires a URI-prefix synonym
        sub = c.get_subconverter([r.prefix])                       # copies of the records
        q, w = eng.var("q"), eng.var("w")
        eng.assume(And([_s(q) != _s(x) for x in r.all_p], [_s(w) != _s(x) for x in r.all_u]))
        side = eng.choice("side", ["curie", "uri"])
        extra = api.Record(prefix=r.psyn[0], uri_prefix=w) if side == "curie" else api.Record(prefix=q, uri_prefix=r.usyn[0])
        for conv in (c, sub):
            try:
                api.Converter([*conv.records, extra])
                eng.fail("a strict constructor accepted a second owner of a synonym acquired by an in-place merge")
            except (api.DuplicatePrefixes, api.DuplicateURIPrefixes) as e:
                eng.expect(type(e).__name__ == ("DuplicatePrefixes" if side == "curie" else "DuplicateURIPrefixes"), "wrong duplicate error class")
        return "dupP" if side == "curie" else "dupU"

    return dict(construct=construct, record=record, loaders=loaders, rebuild=rebuild, reverse=reverse, again=again)[fn]
