"""C20 - W3C validators accept exactly the documented grammar."""
from __future__ import annotations

import z3

from ..core import ANYSTR, RE_SORT, char_table, ranges_re
from .common import And, Or, _s

EXPLANATION = (
    "is_w3c_prefix, _is_w3c_luid and is_w3c_curie are executed on one symbolic string; the three pattern strings and "
    "compiled objects are taken from the loaded curies.w3c module at run time (never copied), parsed with CPython's own "
    "re._parser and translated to z3 regular expressions with the semantics of the call actually made (match / fullmatch / "
    "search, `$` admitting a trailing newline, unanchored match admitting any suffix); \\s is tabulated from the running "
    "interpreter over all code points. The oracle languages are written from the statement: NCName = [A-Za-z_][A-Za-z0-9._-]*; "
    "reference = whitespace-free and not starting with '//'; CURIE = no bracket, not blank, ([NCName] ':')? reference with a "
    "colon-free string being a bare reference. Per path the obligation `result == (s in oracle language)` must be unsat when "
    "negated. is_w3c_prefix and _is_w3c_luid are decided for strings of unbounded length over z3's whole alphabet; "
    "is_w3c_curie as a whole (partition + strip + two regexes) within a length bound.")
BOUNDS = dict(is_w3c_prefix="unbounded length", _is_w3c_luid="unbounded length", is_w3c_curie="|s| <= 6 (quick) / <= 9 (thorough)",
              alphabet="all code points 0..0x2FFFF; U+30000..U+10FFFF behave like U+2FFFF for every class used (checked at start-up)")
OUTSIDE = ["is_w3c_curie on strings longer than the bound", "patterns with back-references / look-around / inner anchors (Unsupported)"]
ASSUMPTIONS = ["the regex translation (rx.py) is faithful for the constructs used; validated each run by replaying path witnesses on the real re module",
               "whitespace = str.isspace = re's \\s, tabulated from the running interpreter"]
ENGINE_OPTS = {}


def jobs(tier):
    L = 9 if tier == "thorough" else 6
    return [
        dict(name="curie:unbounded", fn="curie", params={}, budget_s=600, group="curie", expect_outcomes=["accept", "reject"]),
        dict(name="prefix:unbounded", fn="prefix", params={}, budget_s=300, group="prefix", expect_outcomes=["accept", "reject"]),
        dict(name="luid:unbounded", fn="luid", params={}, budget_s=300, group="luid", expect_outcomes=["accept", "reject"]),
        dict(name=f"curie:len<={L}", fn="curie", params=dict(maxlen=L), budget_s=3000 if tier == "thorough" else 600,
             group="curie", expect_outcomes=["accept", "reject"]),
        dict(name="curie:len<=4:after-another-call", fn="curie", params=dict(maxlen=4, after=True), budget_s=600, group="curie",
             expect_outcomes=["accept", "reject"]),
    ] + ([dict(name="curie:len<=4", fn="curie", params=dict(maxlen=4), budget_s=600, group="curie", expect_outcomes=["accept", "reject"])]
         if tier == "thorough" else [])


def _cls(chars):
    return z3.Union(*[z3.Re(c) for c in chars]) if len(chars) > 1 else z3.Re(chars)


def spec():
    letter = z3.Union(z3.Range("A", "Z"), z3.Range("a", "z"))
    ncname = z3.Concat(z3.Union(letter, z3.Re("_")), z3.Star(z3.Union(letter, z3.Range("0", "9"), _cls("._-"))))
    ws = ranges_re(char_table("isspace"))
    nows = z3.Star(z3.Complement(z3.Union(ws, z3.Re(""))) if False else z3.Diff(z3.AllChar(RE_SORT), ws))
    ref = z3.Intersect(nows, z3.Complement(z3.Concat(z3.Re("//"), ANYSTR)))
    nocolon = z3.Star(z3.Diff(z3.AllChar(RE_SORT), z3.Re(":")))
    nobracket = z3.Star(z3.Diff(z3.AllChar(RE_SORT), _cls("[]")))
    curie = z3.Union(z3.Concat(z3.Option(ncname), z3.Re(":"), ref), z3.Intersect(ref, nocolon))
    curie = z3.Intersect(curie, nobracket, z3.Plus(z3.AllChar(RE_SORT)))
    return dict(prefix=ncname, luid=ref, curie=curie)


def build(job):
    fn, params = job["fn"], job["params"]

    def run(eng):
        w3c = eng.mods.w3c
        s = eng.var("s")
        if params.get("maxlen"):
            eng.assume(z3.Length(_s(s)) <= params["maxlen"])
        f = dict(prefix=w3c.is_w3c_prefix, luid=w3c._is_w3c_luid, curie=w3c.is_w3c_curie)[fn]
        if params.get("after"):
            # the functions have been asked about another string before (the answers must not depend on earlier calls)
            w = eng.var("w")
            eng.assume(z3.Length(_s(w)) <= params["maxlen"])
            w3c.is_w3c_curie(w), w3c.is_w3c_prefix(w), w3c._is_w3c_luid(w)
        got = f(s)
        want = z3.InRe(_s(s), spec()[fn])
        if got:
            eng.check_holds(want, f"{f.__name__} accepts a string outside the documented grammar")
            return "accept"
        eng.check_holds(z3.Not(want), f"{f.__name__} rejects a string of the documented grammar")
        return "reject"
    return run


def extra_evidence():
    from .. import rx
    return dict(regex_classes_checked_constant_beyond_U2FFFF=sorted(set(rx.tail_checked)),
                regex_classes_not_constant_beyond_U2FFFF_claim_restricted_to_z3_alphabet=sorted(set(rx.tail_inexact)))
