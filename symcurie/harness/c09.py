"""C09 - chain is a priority union of converters and get_subconverter a restriction."""
from __future__ import annotations

import z3

from .common import (And, Or, Q, T, Rec, _s, all_p, all_u, as_set_eq, assume_strict, mk_recs, records_eq, shape_jobs,
                     snapshot_records, sym_eq)

EXPLANATION = (
    "chain (a fold of add_record(merge=True) through _match_record/_merge/_index/_eq/_in) runs on 1..3 symbolic strict "
    "converters with arbitrary overlap between them (no cross-converter distinctness) in both case modes (casefold as an "
    "uninterpreted function). Oracle: a ValueError implies that some record shares a prefix / URI prefix with two earlier "
    "records (and, for two case-sensitive converters, is raised exactly then); otherwise the result is accepted by the "
    "strict constructor, knows exactly the union of the inputs' CURIE prefixes and URI prefixes, keeps every input record's "
    "prefixes together in one record, expands every prefix of the first converter as the first converter does with its "
    "canonical choices intact (case-sensitive), chain([c]) has c's records, and in case-insensitive mode no two result "
    "records hold CURIE prefixes equal up to case. get_subconverter(P) for a symbolic P: exactly the records with a prefix "
    "or synonym in P, copied unchanged, nothing else resolvable.")
BOUNDS = dict(converters="<= 3", records_per_converter="<= 2", synonyms_per_side="<= 1 (case-insensitive mode: <= 3 records and <= 2 synonyms in total, the uninterpreted casefold makes every pair of strings an independent fork)", subset_size="<= 2",
              strings="unbounded, full z3 alphabet", casefold="uninterpreted function; counterexamples refined over ASCII length <= 3")
OUTSIDE = ["custom delimiters (chain / get_subconverter build Converter(records) with the default delimiter; the property "
           "does not quantify over delimiters)", "more than 3 converters or 2 records each", "non-strict inputs"]
ASSUMPTIONS = ["pytrie contract stub", "pydantic BaseModel stub", "each input converter is strict (distinctness within one converter only)",
               "casefold only needs congruence"]

SHAPES = [
    ("chain", [[0, 0]], False, Q, dict(params=dict(second=[[0, 0]], cs=True))),
    ("chain", [[1, 1]], False, Q, dict(params=dict(second=[[1, 1]], cs=True), budget=600, shard=6)),
    ("chain", [[0, 0], [0, 0]], False, Q, dict(params=dict(second=[[0, 0]], cs=True), budget=600, shard=5)),
    ("chain", [[0, 0]], False, Q, dict(params=dict(second=[[0, 0]], cs=False))),
    ("chain", [[1, 0]], False, Q, dict(params=dict(second=[[0, 1]], cs=False), budget=600, shard=6)),
    ("single", [[1, 1], [0, 0]], False, Q, dict(params=dict(cs=True))),
    ("single", [[0, 0], [0, 0]], False, Q, dict(params=dict(cs=False), budget=600, shard=5)),
    ("sub", [[1, 0], [0, 0]], False, Q, dict(params=dict(k=2), budget=600, shard=5)),
    ("sub", [[1, 1]], False, Q, dict(params=dict(k=1, built="merge"), budget=600)),
    ("sub", [[1, 0]], False, Q, dict(params=dict(k=1, twice=True), budget=600)),
    ("chain", [[0, 0]], False, T, dict(params=dict(second=[[0, 0]], third=[[0, 0]], cs=True), budget=2400, shard=8)),
    ("chain", [[1, 0], [0, 0]], False, T, dict(params=dict(second=[[1, 0], [0, 0]], cs=True), budget=3000, shard=9)),
    ("chain", [[0, 0], [0, 0]], False, T, dict(params=dict(second=[[0, 0]], cs=False), budget=3000, shard=9)),
    ("chain", [[1, 0]], False, T, dict(params=dict(second=[[1, 0]], cs=False), budget=3000, shard=9)),
    ("chain", [[0, 1]], False, T, dict(params=dict(second=[[0, 1]], cs=False), budget=3000, shard=9)),
    ("sub", [[1, 1], [1, 0]], False, T, dict(params=dict(k=2), budget=2400, shard=8)),
    ("single", [[1, 0], [0, 0]], False, T, dict(params=dict(cs=False), budget=1800, shard=6)),
    ("single", [[1, 1], [1, 1]], False, T, dict(params=dict(cs=True), budget=1800, shard=6)),
]


def jobs(tier):
    return shape_jobs(SHAPES, tier, {"chain": ["bridged", "ok"], "single": ["ok"], "sub": ["ok"]})


def shares(eng, a, b, cs):
    def eq(x, y):
        return _s(x) == _s(y) if cs else eng.cf(x) == eng.cf(y)
    return Or([eq(x, y) for x in a.all_p for y in b.all_p], [eq(x, y) for x in a.all_u for y in b.all_u])


def build(job):
    fn, params = job["fn"], job["params"]
    cs = params.get("cs", True)

    def chain(eng):
        api = eng.mods.api
        groups = [mk_recs(eng, params["shape"], tag="a")]
        if fn == "chain":
            groups.append(mk_recs(eng, params["second"], tag="b"))
            if params.get("third"):
                groups.append(mk_recs(eng, params["third"], tag="c"))
        for g in groups:
            assume_strict(eng, g)
        convs = [api.Converter([api.Record(**r.kwargs()) for r in g]) for g in groups]
        flat = [r for cv in convs for r in _descr(cv)]   # records in the order chain visits them
        try:
            res = api.chain(convs, case_sensitive=cs)
        except ValueError:
            need = Or([z3.Sum([z3.If(shares(eng, flat[i], flat[j], cs), 1, 0) for j in range(i)]) >= 2 for i in range(1, len(flat))])
            eng.check_holds(need, "chain raised although no record shares prefixes with two earlier records")
            return "bridged"
        if cs and len(groups) == 2:
            g1 = _descr(convs[0])
            bridge = Or([z3.Sum([z3.If(shares(eng, b, a, cs), 1, 0) for a in g1]) >= 2 for b in _descr(convs[1])])
            eng.check_holds(z3.Not(bridge), "chain accepted a record that bridges two records of the first converter")
        # result is a valid strict converter
        try:
            api.Converter([api.Record(prefix=r.prefix, uri_prefix=r.uri_prefix, prefix_synonyms=list(r.prefix_synonyms),
                                      uri_prefix_synonyms=list(r.uri_prefix_synonyms)) for r in res.records])
            eng.ok()
        except ValueError:
            eng.fail("the result of chain violates one-owner uniqueness")
            return "ok"
        in_p, in_u = [x for r in flat for x in r.all_p], [x for r in flat for x in r.all_u]
        out_p, out_u = list(res.get_prefixes(include_synonyms=True)), list(res.get_uri_prefixes(include_synonyms=True))
        eng.expect(all(any(sym_eq(x, y) for y in out_p) for x in in_p), "chain lost a CURIE prefix of an input")
        eng.expect(all(any(sym_eq(x, y) for y in in_p) for x in out_p), "chain invented a CURIE prefix")
        eng.expect(all(any(sym_eq(x, y) for y in out_u) for x in in_u), "chain lost a URI prefix of an input")
        eng.expect(all(any(sym_eq(x, y) for y in in_u) for x in out_u), "chain invented a URI prefix")
        for r in flat:   # whatever shared a record in an input shares a record in the result
            owners = [res.standardize_prefix(p) for p in r.all_p] + [res.reverse_prefix_map.get(u) for u in r.all_u]
            eng.expect(all(o is not None and sym_eq(o, owners[0]) for o in owners),
                       "prefixes / URI prefixes of one input record ended up in different result records")
        if cs:
            ident = eng.var("ident")
            for r in _descr(convs[0]):
                for p in r.all_p:
                    got = res.expand_pair(p, ident)
                    eng.expect(got is not None and sym_eq(got, r.uri_prefix + ident),
                               "a prefix of the first converter expands differently in the chained converter")
                    sp = res.standardize_prefix(p)
                    eng.expect(sp is not None and sym_eq(sp, r.prefix), "the first converter's canonical prefix did not win")
        else:
            ps = [(i, x) for i, r in enumerate(res.records) for x in [r.prefix, *r.prefix_synonyms]]
            eng.check_holds(And([eng.cf(x) != eng.cf(y) for i, x in ps for j, y in ps if i < j]),
                            "two records of a case-insensitive chain hold CURIE prefixes equal up to case")
        if fn == "single" and cs:
            want = sorted_snapshot(convs[0])
            got = sorted_snapshot(res)
            eng.expect(len(want) == len(got) and all(
                sym_eq(a[0], b[0]) and sym_eq(a[1], b[1]) and as_set_eq(a[2], b[2]) and as_set_eq(a[3], b[3])
                for a, b in zip(want, got)), "chain([c]) does not have the records of c")
        return "ok"

    def sub(eng):
        api = eng.mods.api
        recs = mk_recs(eng, params["shape"])
        assume_strict(eng, recs)
        if params.get("built") == "merge":
            # the parent acquires its synonyms by in-place merges (after having been used), not at construction
            parent = api.Converter([api.Record(prefix=r.prefix, uri_prefix=r.uri_prefix) for r in recs])
            parent.get_subconverter([recs[0].prefix])
            for r in recs:
                for x in r.psyn:
                    parent.add_prefix(x, r.uri_prefix, merge=True)
                for x in r.usyn:
                    parent.add_prefix(r.prefix, x, merge=True)
        else:
            parent = api.Converter([api.Record(**r.kwargs()) for r in recs])
        P = [eng.var(f"s{i}") for i in range(params["k"])]
        before = snapshot_records(parent)
        kind = eng.choice("subset_as", ["list", "iter"])       # get_subconverter takes any Iterable[str]
        if params.get("twice"):
            # an earlier sub-converter over the same subset was taken and then extended by a merge of its own
            first = parent.get_subconverter(list(P))
            if first.records:
                ns = eng.var("newsyn")
                eng.assume(And([_s(ns) != _s(x) for r in recs for x in r.all_p]))
                first.add_prefix(ns, first.records[0].uri_prefix, merge=True)
        subc = parent.get_subconverter(iter(list(P)) if kind == "iter" else list(P))
        eng.expect(records_eq(before, snapshot_records(parent)), "get_subconverter changed its parent")
        ident = eng.var("ident")
        for r in recs:
            inside = Or([_s(x) == _s(y) for x in r.all_p for y in P])
            mine = [s for s in subc.records if sym_eq(s.prefix, r.prefix)]
            if mine:
                eng.check_holds(inside, "get_subconverter kept a record none of whose prefixes is in the subset")
                s = mine[0]
                eng.expect(len(mine) == 1 and sym_eq(s.uri_prefix, r.uri_prefix) and as_set_eq(s.prefix_synonyms, r.psyn)
                           and as_set_eq(s.uri_prefix_synonyms, r.usyn), "get_subconverter altered a kept record")
                for p in r.all_p:
                    a, b = subc.expand_pair(p, ident), parent.expand_pair(p, ident)
                    eng.expect(a is not None and b is not None and sym_eq(a, b), "subconverter expands a kept prefix differently")
                for u in r.all_u:
                    eng.expect(sym_eq(subc.reverse_prefix_map.get(u), parent.reverse_prefix_map.get(u)) and u in subc.trie,
                               "subconverter does not know a URI prefix of a kept record as the parent does")
            else:
                eng.check_holds(z3.Not(inside), "get_subconverter dropped a record that has a prefix or synonym in the subset")
                for p in r.all_p:
                    eng.expect(subc.expand_pair(p, ident) is None and subc.standardize_prefix(p) is None,
                               "subconverter still resolves a prefix of a dropped record")
                for u in r.all_u:
                    eng.expect(subc.reverse_prefix_map.get(u) is None, "subconverter still knows a URI prefix of a dropped record")
        eng.expect(len(subc.records) <= len(recs), "get_subconverter invented records")
        return "ok"

    return sub if fn == "sub" else chain


def _descr(conv):
    return [Rec(r.prefix, r.uri_prefix, list(r.prefix_synonyms), list(r.uri_prefix_synonyms)) for r in conv.records]


def sorted_snapshot(conv):
    return sorted(snapshot_records(conv), key=lambda t: t[0])
