"""C15 - references parse, print, compare and hash consistently."""
from __future__ import annotations

import os
import tempfile

import z3

from .common import And, Or, Q, T, _b, _i, _s, assume_strict, first_occurrence, mk_recs, sym_eq

EXPLANATION = (
    "_split, ReferenceTuple.from_curie / curie / to_pydantic, Reference._parse_from_string / __lt__ / __hash__ / __eq__ / "
    "curie / pair / from_curie / from_reference, the NamableReference / NamedReference variants, Prefix._validate and "
    "_converter_from_validation_info run over the pydantic stub on symbolic prefixes, identifiers and names. hash() is an "
    "uninterpreted function of its argument tuple, which is exactly what 'depends only on (prefix, identifier)' needs. "
    "Obligations: print/parse inverse for prefixes without the separator (split at the first separator, separator-free "
    "strings rejected with NoCURIEDelimiterError, custom sep); == / hash coherence across the three pydantic classes with "
    "symbolic names; '<' equals the lexicographic order on (prefix, identifier) (hence irreflexive, transitive, total); "
    "attribute assignment raises; with a converter as validation context (object or {'converter': c}) the prefix is "
    "standardised and unknown prefixes raise a validation error; write_triples / read_triples round-trip at the level of "
    "rows of cells.")
BOUNDS = dict(references="<= 3 per obligation", context_converter_records="<= 2", strings="unbounded, full z3 alphabet")
OUTSIDE = ["model_dump_json / model_validate_json (pydantic_core serializer)", "csv quoting and line-ending handling of the triples "
           "file (the csv module is modelled as rows of cells)", "gzip"]
ASSUMPTIONS = ["pydantic BaseModel stub: before-validators, per-field coercion, Prefix._validate with info.context, frozen models reject assignment",
               "hash of a tuple is a function of the hashes of its items (uninterpreted functions)", "csv stub: a file is a list of rows of cells"]

PRETTY_SAMPLES = True   # path witnesses replayed through real files should be printable


def jobs(tier):
    out = [dict(name=n, fn=n, params=p, budget_s=600, group=n, expect_outcomes=e) for n, p, e in [
        ("tuple", {}, ["ok"]), ("models", {}, ["ok"]), ("order", {}, ["ok"]), ("immutable", {}, ["ok"]),
        ("context", dict(shape=[[1, 0]]), ["known", "unknown"]), ("triples", {}, ["ok"])]]
    out.append(dict(name="context:empty-converter", fn="context", params=dict(shape=[]), budget_s=300, group="context-empty", expect_outcomes=["unknown"]))
    if tier == "thorough":
        out.append(dict(name="context:2", fn="context", params=dict(shape=[[1, 1], [0, 0]]), budget_s=1200, shard_depth=5,
                        group="context", expect_outcomes=["known", "unknown"]))
        out.append(dict(name="order3", fn="order3", params={}, budget_s=1200, group="order3", expect_outcomes=["ok"]))
    return out


def H(x):
    """hash as a z3 Int term (symbolic mode: uninterpreted; concrete mode: the real hash)"""
    h = x.__hash__()
    return _i(h)


def build(job):
    fn, params = job["fn"], job["params"]

    def tuple_(eng):
        api = eng.mods.api
        p, i, sep = eng.var("p"), eng.var("i"), eng.var("sep")
        eng.assume(z3.Not(z3.Contains(_s(p), z3.StringVal(":"))))
        t = api.ReferenceTuple(p, i)
        eng.check_holds(_s(t.curie) == z3.Concat(_s(p), z3.StringVal(":"), _s(i)), "ReferenceTuple.curie is not prefix:identifier")
        back = api.ReferenceTuple.from_curie(t.curie)
        eng.expect(sym_eq(back.prefix, p) and sym_eq(back.identifier, i) and back == t, "ReferenceTuple does not parse back from its own CURIE")
        eng.expect(t == (p, i) and tuple(t) == (p, i), "ReferenceTuple is not a plain tuple")
        # custom separator
        eng.assume(z3.Length(_s(sep)) > 0)
        q = eng.var("q")
        eng.assume(first_occurrence(q, sep))
        back2 = api.ReferenceTuple.from_curie(q + sep + i, sep=sep)
        eng.expect(sym_eq(back2.prefix, q) and sym_eq(back2.identifier, i), "from_curie(sep=...) does not split at the first separator")
        # separator-free strings are rejected
        s = eng.var("s")
        try:
            api.ReferenceTuple.from_curie(s)
            eng.check_holds(z3.Contains(_s(s), z3.StringVal(":")), "from_curie accepted a string without the separator")
        except api.NoCURIEDelimiterError:
            eng.check_holds(z3.Not(z3.Contains(_s(s), z3.StringVal(":"))), "from_curie rejected a string that contains the separator")
        r = t.to_pydantic()
        eng.expect(sym_eq(r.prefix, p) and sym_eq(r.identifier, i), "to_pydantic changes the pair")
        return "ok"

    def models(eng):
        api = eng.mods.api
        p, i, p2, i2, n1, n2 = [eng.var(x) for x in ("p", "i", "p2", "i2", "n1", "n2")]
        eng.assume(z3.Not(z3.Contains(_s(p), z3.StringVal(":"))))
        a = api.Reference(prefix=p, identifier=i)
        b = api.NamableReference(prefix=p2, identifier=i2, name=n1)
        c = api.NamedReference(prefix=p2, identifier=i2, name=n2)
        d = api.NamableReference(prefix=p2, identifier=i2)
        # print / parse
        eng.check_holds(_s(a.curie) == z3.Concat(_s(p), z3.StringVal(":"), _s(i)), "Reference.curie is not prefix:identifier")
        for back in (api.Reference.from_curie(a.curie), api.Reference.model_validate(a.curie),
                     api.NamableReference.from_curie(a.curie, n1), api.NamedReference.from_curie(a.curie, n2),
                     api.Reference.from_reference(a), api.NamableReference.from_reference(a)):
            eng.expect(sym_eq(back.prefix, p) and sym_eq(back.identifier, i) and back == a, "a reference does not parse back to an equal object")
        eng.expect(tuple(a.pair) == (p, i), "Reference.pair is not (prefix, identifier)")
        named = api.NamedReference.from_reference(c)
        eng.expect(named == c and sym_eq(named.name, n2), "NamedReference.from_reference loses the pair or the name")
        # objects derived from ones that have already been printed / compared (pydantic's model_copy with an update)
        for obj in (a, b, c):
            obj.curie, obj.pair
            der = obj.model_copy(update={"identifier": i2 if obj is a else i})
            want_i = i2 if obj is a else i
            eng.check_holds(_s(der.curie) == z3.Concat(_s(der.prefix), z3.StringVal(":"), _s(want_i)),
                            "a reference derived with model_copy(update=...) does not print as its own prefix:identifier")
            eng.expect(tuple(der.pair) == (der.prefix, want_i), "a reference derived with model_copy(update=...) has a stale pair")
        # equality / hash depend only on the pair
        eng.expect(b == c and c == b and b == d and not (b != c), "a name matters for equality")
        eng.check_holds(And(H(b) == H(c), H(b) == H(d)), "a name matters for hashing")
        if a == b:
            eng.check_holds(And(_s(p) == _s(p2), _s(i) == _s(i2)), "references with different pairs compare equal")
            eng.check_holds(H(a) == H(b), "equal references hash differently")
            eng.expect(b == a, "equality is not symmetric across reference classes")
        else:
            eng.check_holds(Or(_s(p) != _s(p2), _s(i) != _s(i2)), "references with the same pair compare unequal")
            eng.expect(not (b == a), "equality is not symmetric across reference classes")
        return "ok"

    def order(eng):
        api = eng.mods.api
        p1, i1, p2, i2, n = [eng.var(x) for x in ("p1", "i1", "p2", "i2", "n")]
        a = api.Reference(prefix=p1, identifier=i1)
        b = api.NamableReference(prefix=p2, identifier=i2, name=n)
        lex = Or(_s(p1) < _s(p2), And(_s(p1) == _s(p2), _s(i1) < _s(i2)))
        lt = a < b
        eng.check_holds(_b(lt) == lex if not isinstance(lt, bool) else (lex if lt else z3.Not(lex)),
                        "'<' is not the lexicographic order on (prefix, identifier)")
        eng.expect(not (a < a), "'<' is not irreflexive")
        return "ok"

    def order3(eng):
        api = eng.mods.api
        vs = [eng.var(x) for x in ("p1", "i1", "p2", "i2", "p3", "i3")]
        a, b, c = [api.Reference(prefix=vs[2 * k], identifier=vs[2 * k + 1]) for k in range(3)]
        if a < b and b < c:
            eng.expect(bool(a < c), "'<' is not transitive")
        if not (a == b):
            eng.expect(bool(a < b) != bool(b < a), "'<' is not total / antisymmetric on distinct pairs")
        s = sorted([c, b, a])
        eng.expect(not (s[1] < s[0]) and not (s[2] < s[1]), "sorted() does not order references")
        return "ok"

    def immutable(eng):
        api = eng.mods.api
        p, i, n, x = [eng.var(v) for v in ("p", "i", "n", "x")]
        for obj, attrs in ((api.Reference(prefix=p, identifier=i), ("prefix", "identifier")),
                           (api.NamableReference(prefix=p, identifier=i, name=n), ("prefix", "identifier", "name")),
                           (api.NamedReference(prefix=p, identifier=i, name=n), ("prefix", "identifier", "name"))):
            for attr in attrs:
                try:
                    setattr(obj, attr, x)
                    eng.fail(f"{type(obj).__name__}.{attr} can be assigned")
                except (ValueError, TypeError, AttributeError):
                    eng.ok()
        return "ok"

    def context(eng):
        api = eng.mods.api
        recs = mk_recs(eng, params["shape"])
        assume_strict(eng, recs)
        conv = api.Converter([api.Record(**r.kwargs()) for r in recs])
        P, I = eng.var("P"), eng.var("I")
        eng.assume(z3.Not(z3.Contains(_s(P), z3.StringVal(":"))))
        owners = [r for r in recs if any(sym_eq(P, x) for x in r.all_p)]
        outs = []
        for make in (lambda: api.Reference.from_curie(P + ":" + I, converter=conv),
                     lambda: api.Reference.model_validate({"prefix": P, "identifier": I}, context=conv),
                     lambda: api.Reference.model_validate({"prefix": P, "identifier": I}, context={"converter": conv}),
                     lambda: api.NamableReference.from_curie(P + ":" + I, "name", converter=conv),
                     lambda: api.Reference.from_reference(api.Reference(prefix=P, identifier=I), converter=conv)):
            try:
                ref = make()
            except ValueError:
                eng.expect(not owners, "a reference with a known prefix is rejected under a converter context")
                outs.append("unknown")
                continue
            eng.expect(len(owners) == 1 and sym_eq(ref.prefix, owners[0].prefix) and sym_eq(ref.identifier, I),
                       "under a converter context the prefix is not standardised (or an unknown prefix is accepted)")
            outs.append("known")
        # without context nothing is standardised
        plain = api.Reference.from_curie(P + ":" + I)
        eng.expect(sym_eq(plain.prefix, P), "without a converter context the prefix is changed")
        return outs[0]

    def triples(eng):
        api, tr = eng.mods.api, eng.mods.triples
        vs = [eng.var(f"v{k}") for k in range(6)]
        eng.assume(And([z3.Not(z3.Contains(_s(vs[k]), z3.StringVal(":"))) for k in (0, 2, 4)]))
        if not eng.mods.symbolic:
            # real files: cells that the csv dialect cannot carry unchanged are outside the claim
            if any(ch in v for v in vs for ch in '\r\n\x00'):
                return "<precondition-not-met: cells the csv dialect cannot carry unchanged>"
        t = tr.Triple(subject=api.Reference(prefix=vs[0], identifier=vs[1]), predicate=api.Reference(prefix=vs[2], identifier=vs[3]),
                      object=api.Reference(prefix=vs[4], identifier=vs[5]))
        if eng.mods.symbolic:
            path = "triples.tsv"
        else:
            path = os.path.join(tempfile.mkdtemp(prefix="symcurie-c15-"), "triples.tsv")
        tr.write_triples([t], path)
        back = tr.read_triples(path)
        eng.expect(len(back) == 1 and back[0].subject == t.subject and back[0].predicate == t.predicate and back[0].object == t.object,
                   "a triple written by write_triples is not read back equal")
        return "ok"

    return dict(tuple=tuple_, models=models, order=order, order3=order3, immutable=immutable, context=context, triples=triples)[fn]
