"""C19 - discover returns a valid converter that compresses the URIs it learned from."""
from __future__ import annotations

import z3

from ..core import ANYSTR, ASCII_ALNUM, ASCII_ONLY
from .common import And, Or, _s, assume_strict, mk_recs, substr_from, sym_eq

EXPLANATION = (
    "discover and _get_uri_prefix_to_luids (with Converter.__init__, compress, expand on the result) run on lists of "
    "symbolic URIs. Per URI (m = 1, strings of unbounded length): the URI is learnable iff it ends in an alphanumeric tail "
    "directly after one of the delimiters; then the result has exactly one record named <metaprefix>1 whose URI prefix is "
    "the URI minus that tail and ends in the delimiter, the URI compresses and expands back to itself; otherwise the result "
    "is empty. Set level (m = 2, 3): the result's URI prefixes are exactly the learned prefixes of the inputs (kept only "
    "with >= cutoff distinct tails), sorted ascending and numbered from 1 - an order-free oracle, so permuting or repeating "
    "the inputs (symbolic contents cover both) cannot matter; URIs recognised by a supplied symbolic converter contribute "
    "nothing. The GitHub-issues special case in the source is a recorded known finding and excluded while it reproduces.")
BOUNDS = dict(uris="<= 3 (quick: 1 and 2)", alphabet="ASCII (so that str.isalnum is the ASCII class)", strings="unbounded length",
              delimiters="default ('#', '/', '_'), ['|', '='] and ['|'] (m = 3 and the quick m = 2 jobs use the one-delimiter list)", cutoff="None, 1, 2")
OUTSIDE = ["non-ASCII URIs", "more than 3 URIs", "multi-character delimiters other than '::' (m = 1)", "discover_from_rdf (rdflib parsing)"]
ASSUMPTIONS = ["pytrie contract stub", "pydantic BaseModel stub", "URIs are ASCII strings"]

ENGINE_OPTS = dict(prefer_cvc5=True)   # z3 4.x/5.x time out on "constant prefix across a concatenation" queries cvc5 answers at once

DELIMS = {"default": None, "custom": ["|", "="], "one": ["|"], "multi": ["::"]}


def jobs(tier):
    out = []

    def J(fn, m, extra=None, budget=600, shard=None, tiers=("quick", "thorough")):
        if tier not in tiers:
            return
        params = dict(m=m)
        params.update(extra or {})
        tag = "".join(f":{k}={v}" for k, v in (extra or {}).items())
        out.append(dict(name=f"{fn}:m={m}{tag}", fn=fn, params=params, budget_s=budget, shard_depth=shard, group=fn,
                        expect_outcomes={"single": ["learned", "nothing"], "multi": ["records"], "many": ["records"]}[fn]))
    J("single", 1, dict(delims="default"))
    J("single", 1, dict(delims="custom"))
    J("single", 1, dict(delims="multi"))
    J("multi", 2, dict(delims="one", cutoff=None), shard=5)
    J("multi", 2, dict(delims="one", cutoff=2), shard=5)
    J("multi", 1, dict(delims="default", cutoff=None, converter=True))
    J("multi", 2, dict(delims="one", cutoff=2, converter=True), 900, 6)
    J("multi", 1, dict(delims="one", cutoff=None, converter="grown"))
    J("many", 11, dict(delims="default"))
    T_ = ("thorough",)
    J("many", 25, dict(delims="one"), 1200, None, T_)
    J("multi", 2, dict(delims="default", cutoff=None), 3000, 8, T_)
    J("multi", 2, dict(delims="default", cutoff=2), 3000, 8, T_)
    J("multi", 2, dict(delims="custom", cutoff=1), 3000, 8, T_)
    J("multi", 2, dict(delims="one", cutoff=None, roundtrip=True), 3000, 8, T_)
    J("multi", 2, dict(delims="one", cutoff=1, converter=True), 3000, 8, T_)
    J("multi", 3, dict(delims="one", cutoff=None), 3000, 9, T_)
    J("multi", 3, dict(delims="one", cutoff=2), 3000, 9, T_)
    return out


def delim_chars(params):
    return DELIMS[params["delims"]] or ["#", "/", "_"]


def lang(params):
    d = delim_chars(params)
    dre = z3.Union(*[z3.Re(x) for x in d]) if len(d) > 1 else z3.Re(d[0])
    alnum = z3.Plus(ASCII_ALNUM)
    return dre, alnum, z3.Concat(ANYSTR, dre, alnum)


def learn(r, u, params):
    """r is the learned URI prefix of u: u = r ++ tail, tail alphanumeric, r ends in a delimiter."""
    dre, alnum, _ = lang(params)
    r, u = _s(r), _s(u)
    return And(z3.PrefixOf(r, u), z3.InRe(r, z3.Concat(ANYSTR, dre)), z3.InRe(substr_from(u, z3.Length(r)), alnum))


def github(u):
    return And(z3.PrefixOf(z3.StringVal("https://github.com"), _s(u)), z3.Contains(_s(u), z3.StringVal("issues")))


def build(job):
    fn, params = job["fn"], job["params"]
    m = params["m"]

    def setup(eng):
        eng.ascii_classes = True
        uris = [eng.var(f"uri{i}") for i in range(m)]
        eng.assume(And([z3.InRe(_s(u), ASCII_ONLY) for u in uris]))
        if params.get("maxlen"):
            eng.assume(And([z3.Length(_s(u)) <= params["maxlen"] for u in uris]))
        return uris

    def single(eng):
        disc = eng.mods.disc
        (u,) = setup(eng)
        eng.known("github_issues", github(u))
        mp = eng.var("metaprefix")
        eng.assume(z3.Not(z3.Contains(_s(mp), z3.StringVal(":"))))   # a CURIE prefix must not contain the delimiter (C03's precondition)
        c = disc.discover([u], delimiters=DELIMS[params["delims"]], metaprefix=mp)
        _, _, learnable = lang(params)
        if not c.records:
            eng.check_holds(z3.Not(z3.InRe(_s(u), learnable)), "a URI ending in an alphanumeric identifier after a delimiter was not learned")
            return "nothing"
        eng.expect(len(c.records) == 1, "one URI produced several records")
        r = c.records[0]
        eng.check_holds(learn(r.uri_prefix, u, params), "the discovered URI prefix is not the URI minus its alphanumeric tail, ending in a delimiter")
        eng.check_holds(_s(r.prefix) == z3.Concat(_s(mp), z3.StringVal("1")), "records are not named <metaprefix>1, 2, ...")
        cur = c.compress(u)
        back = c.expand(cur) if cur is not None else None
        eng.expect(cur is not None and back is not None and sym_eq(back, u), "a learned URI does not compress and expand back to itself")
        return "learned"

    def multi(eng):
        """URIs are built structurally so that the oracle can name each learned prefix: a learnable URI is
        x ++ delimiter ++ alphanumeric tail, any other URI is a free string outside the learnable language."""
        api, disc = eng.mods.api, eng.mods.disc
        eng.ascii_classes = True
        dre, alnum, learnable = lang(params)
        cutoff = params.get("cutoff")
        pre = None
        if params.get("converter"):
            recs = mk_recs(eng, [[0, 1]], tag="c")
            assume_strict(eng, recs)
            if params["converter"] == "grown":
                pre = api.Converter([api.Record(prefix=recs[0].prefix, uri_prefix=recs[0].uri_prefix)])
            else:
                pre = api.Converter([api.Record(**r.kwargs()) for r in recs])
        uris, learned = [], []      # learned: (prefix term as str-like, tail) per contributing URI
        for i in range(m):
            if eng.flag(f"learnable{i}"):
                x, t = eng.var(f"x{i}"), eng.var(f"t{i}")
                d = eng.choice(f"d{i}", delim_chars(params))
                eng.assume(And(z3.InRe(_s(x), ASCII_ONLY), z3.InRe(_s(t), alnum)))
                u = x + d + t
                uris.append(u)
                eng.known("github_issues", github(u))
                if pre is not None and (eng.branch(Or([z3.PrefixOf(_s(x), _s(u)) for x in recs[0].all_u])) if eng.mods.symbolic else
                                        any(u.startswith(x) for x in recs[0].all_u)):
                    continue        # recognised by the supplied converter (canonical URI prefix or synonym): contributes nothing
                learned.append((x + d, t))
            else:
                u = eng.var(f"uri{i}")
                eng.assume(And(z3.InRe(_s(u), ASCII_ONLY), z3.Not(z3.InRe(_s(u), learnable))))
                uris.append(u)
        if params.get("maxlen"):
            eng.assume(And([z3.Length(_s(u)) <= params["maxlen"] for u in uris]))
        if params.get("converter") == "grown":
            # the supplied converter has been used for a discovery over the same URIs before and has since gained a URI prefix
            disc.discover(list(uris), delimiters=DELIMS[params["delims"]], cutoff=cutoff, converter=pre)
            pre.add_prefix(recs[0].prefix, recs[0].usyn[0], merge=True)
        c = disc.discover(uris, delimiters=DELIMS[params["delims"]], cutoff=cutoff, converter=pre)
        # order-free oracle: distinct learned prefixes with >= cutoff distinct tails
        expected = []
        for p, _ in learned:
            if any(sym_eq(p, q) for q in expected):
                continue
            tails = []
            for p2, t2 in learned:
                if sym_eq(p2, p) and not any(sym_eq(t2, t3) for t3 in tails):
                    tails.append(t2)
            if cutoff is None or len(tails) >= cutoff:
                expected.append(p)
        res = [r.uri_prefix for r in c.records]
        eng.expect(len(res) == len(expected) and all(any(sym_eq(r, e) for e in expected) for r in res)
                   and all(any(sym_eq(r, e) for r in res) for e in expected),
                   "the discovered URI prefixes are not exactly the learned prefixes of the inputs (with >= cutoff distinct identifiers)")
        eng.check_holds(And([_s(a) < _s(b) for a, b in zip(res, res[1:])]), "records are not in sorted URI-prefix order (or contain duplicates)")
        for i, r in enumerate(c.records, start=1):
            eng.expect(sym_eq(r.prefix, f"ns{i}") and not r.prefix_synonyms and not r.uri_prefix_synonyms, "records are not named ns1, ns2, ... in order")
        if params.get("roundtrip") and cutoff is None and pre is None:
            for u, (p, t) in zip([u for u in uris], learned) if len(learned) == len(uris) else []:
                cur = c.compress(u)
                back = c.expand(cur) if cur is not None else None
                eng.expect(back is not None and sym_eq(back, u), "a learned URI does not compress and expand back to itself under the discovered converter")
        return "records"

    def many(eng):
        """Numbering beyond one digit: m URIs over m fixed, pairwise different URI prefixes (given in reverse order), each
        with an arbitrary alphanumeric identifier and an arbitrary metaprefix; only the identifiers and the metaprefix
        are symbolic."""
        disc = eng.mods.disc
        eng.ascii_classes = True
        _, alnum, _ = lang(params)
        d = delim_chars(params)[-1]
        mp = eng.var("metaprefix")
        eng.assume(z3.Not(z3.Contains(_s(mp), z3.StringVal(":"))))
        bases = [f"https://example.org/{chr(ord('a') + i // 26)}{chr(ord('a') + i % 26)}{d}" for i in range(m)]
        tails = [eng.var(f"t{i}") for i in range(m)]
        eng.assume(And([z3.InRe(_s(t), alnum) for t in tails]))
        uris = [b + t for b, t in zip(bases, tails)]
        kind = eng.choice("uris_as", ["list", "iter"])          # discover takes any Iterable[str]
        c = disc.discover(iter(list(reversed(uris))) if kind == "iter" else list(reversed(uris)), delimiters=DELIMS[params["delims"]], metaprefix=mp)
        eng.expect(len(c.records) == m, "not one record per distinct learnable URI prefix")
        for i, b in enumerate(sorted(bases), start=1):      # (the converter lists its records by CURIE prefix: ns1, ns10, ns11, ns2, ...)
            owners = [r for r in c.records if sym_eq(r.uri_prefix, b)]
            eng.expect(len(owners) == 1, "a learnable URI prefix is missing from the result (or listed twice)")
            for r in owners:
                eng.check_holds(_s(r.prefix) == z3.Concat(_s(mp), z3.StringVal(str(i))), "records are not named <metaprefix>1, <metaprefix>2, ... in sorted URI-prefix order")
        for u in (uris[0], uris[-1]):
            cur = c.compress(u)
            back = c.expand(cur) if cur is not None else None
            eng.expect(back is not None and sym_eq(back, u), "a learned URI does not compress and expand back to itself under the discovered converter")
        return "records"

    return dict(single=single, multi=multi, many=many)[fn]


