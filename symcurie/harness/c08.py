"""C08 - strict, passthrough and default modes differ only in how failure is reported."""
from __future__ import annotations

import z3

from .common import And, Or, Q, T, _s, _val_eq, fixture, shape_jobs, sym_eq

STRING_FUNCS = ["compress", "expand", "compress_or_standardize", "expand_or_standardize", "standardize_prefix",
                "standardize_curie", "standardize_uri"]
STRICT_ONLY = ["parse", "parse_uri", "parse_curie", "expand_all"]
PAIR_FUNCS = ["expand_pair", "expand_reference"]
PAIR_STRICT_ONLY = ["expand_pair_all"]
ALL = STRING_FUNCS + STRICT_ONLY + PAIR_FUNCS + PAIR_STRICT_ONLY

EXPLANATION = (
    "Each of the 14 functions of the quantifier is called on the same symbolic input (a free string, or a free "
    "(prefix, identifier) pair) of a symbolic strict converter in default mode, with passthrough=True, with strict=True and "
    "with both. The real raise statements run; exceptions are observed natively. Obligations: default never raises; "
    "passthrough returns the default value or the input unchanged (the formatted pair for expand_pair / expand_reference); "
    "strict returns the default value or raises a ValueError subclass defined in curies.api; no other exception class "
    "escapes on any path.")
BOUNDS = dict(records="<= 3", synonyms_per_side="<= 1", strings="unbounded, full z3 alphabet",
              delimiter="':' and an arbitrary non-empty symbolic string")
OUTSIDE = ["more than 3 records", "non-strict converters", "non-string arguments"]
ASSUMPTIONS = ["pytrie longest-prefix contract stub", "pydantic BaseModel stub (validator bodies real)",
               "strict converter precondition", "no CURIE prefix contains the delimiter"]


def jobs(tier):
    shapes = [([[1, 1], [0, 0]], False, Q), ([[1, 0], [0, 0]], True, Q),
              ([[1, 1], [1, 1]], False, T), ([[0, 0]] * 3, False, T), ([[1, 1], [0, 0]], True, T),
              ([[1, 1], [1, 1], [0, 0]], False, T), ([[0, 1], [0, 1]], True, T)]
    items = []
    for shape, sd, tiers in shapes:
        for fn in ALL:
            items.append((fn, shape, sd, tiers, dict(budget=900)))
    for fn in ALL:      # converters with a history: queried, then given one more record / queried before
        items.append((fn, [[0, 0], [0, 0]], False, Q, dict(budget=900, params=dict(built="grow"))))
        items.append((fn, [[1, 1]], False, T, dict(budget=900, params=dict(built="merge"))))
    return shape_jobs(items, tier, {fn: ["none", "value"] for fn in ALL})


def build(job):
    fname, params = job["fn"], job["params"]

    def run(eng):
        api = eng.mods.api
        recs, delim, c = fixture(eng, params)
        f = getattr(c, fname)
        pair = fname in PAIR_FUNCS + PAIR_STRICT_ONLY
        has_pt = fname in STRING_FUNCS + PAIR_FUNCS
        if pair:
            P, I = eng.var("P"), eng.var("I")
            args = (api.ReferenceTuple(P, I),) if fname == "expand_reference" else (P, I)
            unchanged = P + delim + I
        else:
            x = eng.var("x")
            args = (x,)
            unchanged = x
        base_kw = dict(return_none=True) if fname == "parse_uri" else {}

        def call(**kw):
            try:
                return "value", f(*args, **base_kw, **kw)
            except Exception as e:  # noqa: BLE001 - the class of every escaping exception is the subject
                return "raised", e

        kd, d = call(strict=False) if fname == "parse" else call()
        if kd == "raised":
            eng.fail(f"{fname} raised {type(d).__name__} in default mode")
            return "raised"
        if has_pt:
            kp, p = call(passthrough=True)
            if kp == "raised":
                eng.fail(f"{fname} raised {type(p).__name__} with passthrough=True")
            elif d is None:
                eng.expect(p is not None and _val_eq(p, unchanged), f"{fname}(passthrough=True) does not return the input unchanged")
            else:
                eng.expect(_val_eq(p, d), f"{fname}(passthrough=True) differs from the default result")
        for kw in ([dict(strict=True), dict(strict=True, passthrough=True)] if has_pt else [dict(strict=True)]):
            ks, s = call(**kw)
            if ks == "value":
                eng.expect(d is not None and _val_eq(s, d), f"{fname}({kw}) returns a value that differs from the default result")
            elif not isinstance(s, ValueError) or type(s).__module__ != api.__name__:
                eng.fail(f"{fname}({kw}) raised {type(s).__name__}, not a curies ValueError")
            elif d is not None:
                eng.fail(f"{fname}({kw}) raised {type(s).__name__} although the default call succeeds")
            else:
                eng.ok()
        return "none" if d is None else "value"
    return run
