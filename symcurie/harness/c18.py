"""C18 - the mapping service returns exactly the equivalent URIs, in the requested format (partially applicable)."""
from __future__ import annotations

import z3

from ..core import ANYSTR, RE_SORT
from .common import And, Or, Q, T, _s, assume_strict, longest_match, mk_recs, no_match, substr_from, sym_eq

EXPLANATION = (
    "(a) MappingServiceGraph.triples and _expand_pair_all run on a symbolic strict converter with symbolic subject / object "
    "/ predicate (rdflib's pure-Python _is_valid_uri is executed as is): for a configured predicate and exactly one side "
    "bound to u the other side of the yielded triples is exactly the syntactically valid members of expand_all(compress(u)) "
    "(independent longest-match oracle), nothing for unrecognised u, other predicates, both or neither side bound. "
    "(b) parse_header, _handle_part and handle_header run on a header built structurally from k parts "
    "type [OWS ';' OWS 'q=' qvalue] joined by OWS ',' OWS, with the media types enumerated over supported, synonym and "
    "unsupported types (pairwise distinct in one header), OWS a symbolic string in [ \\t]*, and the qvalue a symbolic string "
    "constrained to a registry of RFC 7231 numerals on which float() forks. The result must be the canonical form of a "
    "supported type of maximal q (any of them on ties) and the default when none is supported. "
    "(c) VALUES placement: rdflib translates a VALUES block written after WHERE into Join(p1 = pattern, p2 = ToMultiSet); the service "
    "depends on curies' own _optimize_node flipping every such Join so that the values are bound before triples() runs. "
    "_optimize_node runs on a two-level algebra tree whose node names are symbolic strings: a node is flipped exactly when it "
    "is a Join with p2 = ToMultiSet and p1 not ToMultiSet, for every name of p1 (BGP, Filter, Extend, ...), nothing else moves; "
    "MappingServiceSPARQLProcessor.query hands the rewritten algebra to the evaluator also for an already translated query object. "
    "SPARQL parsing / evaluation themselves, GET vs POST and the two web frameworks are inside rdflib / Flask / FastAPI and "
    "not applicable.")
BOUNDS = dict(header_parts="<= 2 with symbolic optional whitespace (1 with all 10 media types, 2 with one representative per class); 3 parts over {type, its synonym, other type} without whitespace",
              qvalues="registry 0.1 0.5 0.50 0.25 0.9 1 1.0 (every weak order on <= 2 parts, equal values with different spellings)",
              ows="symbolic string in [ \\t]*, unbounded", triples_converter="<= 2 records, <= 2 URI synonyms", strings="unbounded, full z3 alphabet")
OUTSIDE = ["SPARQL parsing and evaluation (rdflib): that rdflib's translation of a trailing VALUES block is Join(pattern, ToMultiSet) is taken from rdflib, not checked", "algebra trees deeper than two levels (the recursion of _optimize_node is exercised one level deep)", "GET vs POST, Flask vs FastAPI plumbing, result serialisation",
           "arbitrary q numerals outside the registry", "headers of 3 or more parts", "repeated media types in one header", "q=0 (not acceptable) semantics"]
ASSUMPTIONS = ["CompValue stub: a named mapping with attribute access, update() and values() (rdflib's class in concrete mode)", "rdflib stub: URIRef(s) is the string s, Graph.__init__ does nothing, OWL.sameAs is its IRI; _is_valid_uri is rdflib's own function",
               "float() on a symbolic string forks over the numeral registry (core.sym_float)", "pytrie contract stub", "pydantic BaseModel stub"]

SUPPORTED = ["application/sparql-results+json", "application/sparql-results+xml", "application/sparql-results+csv"]
SYN = {"application/json": SUPPORTED[0], "text/json": SUPPORTED[0], "application/xml": SUPPORTED[1], "text/xml": SUPPORTED[1], "text/csv": SUPPORTED[2]}
OTHER = ["text/html", "*/*"]
ALL = SUPPORTED + list(SYN) + OTHER
REPS = [SUPPORTED[0], SUPPORTED[2], "application/xml", "text/html"]
REG = ["0.1", "0.5", "0.50", "0.25", "0.9", "1", "1.0"]
DEFAULT = "application/sparql-results+xml"
SAMEAS = "http://www.w3.org/2002/07/owl#sameAs"
INVALID = '<>" {}|\\^`'


def jobs(tier):
    out = []

    def J(fn, name, params, budget=600, shard=None, tiers=("quick", "thorough"), expect=()):
        if tier in tiers:
            out.append(dict(name=name, fn=fn, params=params, budget_s=budget, shard_depth=shard, group=fn, expect_outcomes=list(expect)))
    J("header", "header:k=1:all-types", dict(k=1, types="all", ows=True), 600, 5, expect=["supported", "default"])
    J("header", "header:k=2:reps", dict(k=2, types="reps", ows=True), 900, 8, expect=["supported", "default"])
    J("header", "header:empty", dict(k=0), expect=["default"])
    # three parts over {a supported type, a synonym of the same type, another supported type}, no optional whitespace,
    # three numerals: a type named twice through a synonym must not disturb the choice
    J("header", "header:k=3:json-json-csv", dict(k=3, types="dup", ows=False, reg=["0.1", "0.5", "1.0"]), 900, 8, expect=["supported"])
    J("triples", "triples:[[0,1]]", dict(shape=[[0, 1]], custom=False), 600, 5, expect=["subject-bound", "object-bound", "nothing"])
    J("triples", "triples:[[0,0]]:concrete-custom-predicate", dict(shape=[[0, 0]], custom="http://www.w3.org/2004/02/skos/core#exactMatch"), 600, 5,
      expect=["subject-bound", "object-bound", "nothing"])
    J("optimize", "optimize:join-of-join", dict(), 600, None, expect=["done"])
    J("processor", "processor:prepared-query", dict(), 600, None, expect=["done"])
    J("header", "header:k=2:all-types", dict(k=2, types="all", ows=True), 3000, 9, ("thorough",), ["supported", "default"])
    J("triples", "triples:[[0,2],[0,0]]", dict(shape=[[0, 2], [0, 0]], custom=False), 2400, 8, ("thorough",), ["subject-bound", "object-bound", "nothing"])
    J("triples", "triples:[[1,1]]:custom-predicate", dict(shape=[[1, 1]], custom=True), 1800, 6, ("thorough",), ["subject-bound", "object-bound", "nothing"])
    return out


def same(a, b):
    """string equality that ignores rdflib's URIRef-vs-str type strictness on the real stack"""
    if isinstance(a, str) and isinstance(b, str):
        return str(a) == str(b)
    return sym_eq(a, b)


def valid(c):
    """syntactically valid IRI text in rdflib's sense: none of the characters <>" {}|\\^` occurs"""
    return And([z3.Not(z3.Contains(c, z3.StringVal(ch))) for ch in INVALID])


def build(job):
    fn, params = job["fn"], job["params"]

    def header(eng):
        utils = eng.mods.utils
        eng.numerals = REG
        k = params["k"]
        if k == 0:
            eng.expect(utils.handle_header(None) == DEFAULT and utils.handle_header("") == DEFAULT, "missing header does not give the default")
            return "default"
        alphabet = {"all": ALL, "reps": REPS, "dup": [SUPPORTED[0], "application/json", SUPPORTED[2]]}[params["types"]]
        reg = params.get("reg", REG)
        eng.numerals = reg
        ows = z3.Star(z3.Union(z3.Re(" "), z3.Re("\t")))
        types_, qs, parts = [], [], []
        for i in range(k):
            pool = [t for t in alphabet if t not in types_]      # media types pairwise distinct within one header
            t = eng.choice(f"type{i}", pool)
            types_.append(t)
            if eng.flag(f"hasq{i}"):
                qv = eng.var(f"q{i}")
                eng.assume(Or([_s(qv) == z3.StringVal(c) for c in reg]))
                o1, o2 = eng.var(f"ows{i}a"), eng.var(f"ows{i}b")
                eng.assume(And(z3.InRe(_s(o1), ows), z3.InRe(_s(o2), ows)) if params["ows"] else And(_s(o1) == z3.StringVal(""), _s(o2) == z3.StringVal("")))
                qval = z3.RealVal(0)
                for c in reg:
                    qval = z3.If(_s(qv) == z3.StringVal(c), z3.RealVal(c), qval)
                part = t + o1 + ";" + o2 + "q=" + qv
            else:
                qval = z3.RealVal(1)
                part = t
            parts.append(part)
            qs.append(qval)
        hdr = parts[0]
        for i, p in enumerate(parts[1:], start=1):
            c1, c2 = eng.var(f"sep{i}a"), eng.var(f"sep{i}b")
            eng.assume(And(z3.InRe(_s(c1), ows), z3.InRe(_s(c2), ows)) if params["ows"] else And(_s(c1) == z3.StringVal(""), _s(c2) == z3.StringVal("")))
            hdr = hdr + c1 + "," + c2 + p
        got = utils.handle_header(hdr)
        other_default = SUPPORTED[2]
        got2 = utils.handle_header(hdr, other_default)      # the caller's own default must only matter when nothing is supported
        canon = [t if t in SUPPORTED else SYN.get(t) for t in types_]
        sup = [i for i in range(k) if canon[i] is not None]
        if not sup:
            eng.expect(sym_eq(got, DEFAULT), "no supported media type in the header, but the default was not returned")
            eng.expect(sym_eq(got2, other_default), "no supported media type in the header, but the caller's default was not returned")
            return "default"
        eng.expect(sym_eq(got, got2), "the choice among supported media types depends on the default argument")
        # a result type may be named twice (directly and through a synonym): its weight is then the larger of the two
        def weight(i):
            same = [j for j in sup if canon[j] == canon[i]]
            w = qs[same[0]]
            for j in same[1:]:
                w = z3.If(qs[j] > w, qs[j], w)
            return w
        best = [And(_s(got) == z3.StringVal(canon[i]), [weight(j) <= weight(i) for j in sup if canon[j] != canon[i]]) for i in sup]
        eng.check_holds(Or(best), "the negotiated media type is not the canonical form of a supported type with the highest q")
        return "supported"

    def triples(eng):
        api, ms = eng.mods.api, eng.mods.msapi
        recs = mk_recs(eng, params["shape"])
        assume_strict(eng, recs)
        conv = api.Converter([api.Record(**r.kwargs()) for r in recs])
        cp = (params["custom"] if isinstance(params["custom"], str) else eng.var("configured")) if params["custom"] else None
        g = ms.MappingServiceGraph(converter=conv, predicates=cp) if cp is not None else ms.MappingServiceGraph(converter=conv)
        configured = cp if cp is not None else SAMEAS
        u, pred = eng.var("u"), eng.var("pred")
        mode = eng.choice("bound", ["subject", "object", "both", "neither"])
        U, PRED = ms.URIRef(u), ms.URIRef(pred)
        s_q = U if mode in ("subject", "both") else None
        o_q = U if mode in ("object", "both") else None
        out = list(g.triples((s_q, PRED, o_q)))
        q = _s(u)
        if mode in ("both", "neither"):
            eng.expect(not out, "triples are produced although both or neither of subject and object are bound")
            return "nothing"
        if not same(pred, configured):
            eng.expect(not out, "triples are produced for a predicate that is not configured")
            return "nothing"
        others = [(t[2] if mode == "subject" else t[0]) for t in out]
        for t in out:
            eng.expect(same(t[1], configured) and same(t[0] if mode == "subject" else t[2], u), "a yielded triple does not carry the query's bound side and predicate")

        def cands(up, r):
            rest = substr_from(q, z3.Length(up))
            return [z3.Concat(_s(x), rest) for x in r.all_u]
        if not others:
            eng.check_holds(Or(no_match(recs, q), longest_match(recs, q, lambda up, r: And([z3.Not(valid(c)) for c in cands(up, r)]))),
                            "no equivalent URI is returned although the URI is recognised and has syntactically valid renderings")
            return "nothing"
        eng.check_holds(longest_match(recs, q, lambda up, r: And(
            [And(valid(_s(o)), Or([_s(o) == c for c in cands(up, r)])) for o in others],
            [z3.Implies(valid(c), Or([_s(o) == c for o in others])) for c in cands(up, r)])),
            "the returned URIs are not exactly the valid members of expand_all(compress(u))")
        eng.expect(len(others) <= max(1 + len(r.usyn) for r in recs), "more URIs returned than the record has URI prefixes")
        return "subject-bound" if mode == "subject" else "object-bound"

    def optimize(eng):
        """_optimize_node on an algebra tree  root(p1 = inner(p1 = leaf, p2 = leaf), p2 = leaf)  whose five node names are
        arbitrary strings: a node is flipped exactly when it is a Join whose second operand is a VALUES block (ToMultiSet)
        and whose first operand is not - whatever else the first operand is (BGP, Filter, Extend, LeftJoin, Union, ...);
        nothing else moves."""
        rc = eng.mods.rdfc
        CV = rc.CompValue
        nr, n1, n2, n11, n12 = [eng.var(x) for x in ("name_root", "name_p1", "name_p2", "name_p1_p1", "name_p1_p2")]
        J_, TMS = z3.StringVal("Join"), z3.StringVal("ToMultiSet")
        eng.assume(And([_s(x) != J_ for x in (n2, n11, n12)]))      # a Join always has two operands; the leaves have none
        l11, l12, l2 = CV(n11), CV(n12), CV(n2)
        inner = CV(n1, p1=l11, p2=l12)
        root = CV(nr, p1=inner, p2=l2)
        out = rc._optimize_node(root)
        eng.expect(out is root, "_optimize_node does not return the node it was given")
        for node, name, (a, na), (b, nb) in ((root, nr, (inner, n1), (l2, n2)), (inner, n1, (l11, n11), (l12, n12))):
            must_flip = And(_s(name) == J_, _s(nb) == TMS, _s(na) != TMS)
            if node.p1 is b and node.p2 is a:
                eng.check_holds(must_flip, "_optimize_node swapped the operands of a node that is not a Join with a trailing VALUES block")
            elif node.p1 is a and node.p2 is b:
                eng.check_holds(z3.Not(must_flip), "a Join whose second operand is a VALUES block was not flipped (the values are not bound before triples() is called)")
            else:
                eng.fail("_optimize_node lost or duplicated an operand")
        return "done"

    def processor(eng):
        """MappingServiceSPARQLProcessor.query with an already translated query object (what rdflib's prepareQuery gives):
        the algebra handed to the evaluator must have its trailing VALUES block moved first, as for query strings."""
        import types
        rc = eng.mods.rdfc
        CV = rc.CompValue
        nr, n1, n2 = [eng.var(x) for x in ("name_root", "name_p1", "name_p2")]
        J_, TMS = z3.StringVal("Join"), z3.StringVal("ToMultiSet")
        eng.assume(And(_s(n1) != J_, _s(n2) != J_))
        a, b = CV(n1), CV(n2)
        root = CV(nr, p1=a, p2=b)
        seen = []
        orig = rc.evalQuery
        rc.evalQuery = lambda graph, query, *rest, **kw: (seen.append(query.algebra), "RESULT")[1]
        try:
            out = rc.MappingServiceSPARQLProcessor(None).query(types.SimpleNamespace(algebra=root))
        finally:
            rc.evalQuery = orig
        eng.expect(out == "RESULT" and len(seen) == 1 and seen[0] is root, "the processor does not evaluate the (rewritten) algebra of the query it was given")
        must_flip = And(_s(nr) == J_, _s(n2) == TMS, _s(n1) != TMS)
        if root.p1 is b and root.p2 is a:
            eng.check_holds(must_flip, "the processor swapped the operands of a node that is not a Join with a trailing VALUES block")
        elif root.p1 is a and root.p2 is b:
            eng.check_holds(z3.Not(must_flip), "a prepared query with a trailing VALUES block is evaluated without moving the VALUES block first")
        else:
            eng.fail("the processor lost or duplicated an operand")
        return "done"

    return dict(header=header, triples=triples, optimize=optimize, processor=processor)[fn]
