"""C17 - the resolver redirects exactly where expand points, on both web frameworks (regex level)."""
from __future__ import annotations

import z3

from .. import routes
from ..core import ANYSTR
from .common import And, Or, _s, all_u, assume_strict, mk_recs, sym_eq

EXPLANATION = (
    "get_flask_blueprint and get_fastapi_router are executed with recording stubs for Blueprint / APIRouter, which capture "
    "the rule strings the code builds for the converter's delimiter and the two resolve handlers (real source). The rule "
    "strings are compiled by the REAL werkzeug.routing.Rule/Map and the REAL starlette.routing.compile_path; the patterns "
    "they produce are parsed with re._parser and turned into regular constraints, including first-match capture semantics "
    "for the shape <group><delimiter><group> (greedy first group = no later split point is also a match). "
    "'match' jobs: the language of request paths of the quantifier ('/' prefix delimiter identifier, identifier = non-empty "
    "URL-path-safe segments joined by '/', possibly containing the delimiter) is included in each route's language (one "
    "unbounded regular-inclusion query per framework). 'resolve' jobs: for symbolic captured groups (p, i) satisfying the "
    "capture constraints, the handler is run symbolically with a symbolic converter; the CURIE p+delimiter+i is split at "
    "its FIRST delimiter into (P, I) by the harness, and the handler must answer 302 with Location = canonical URI prefix "
    "of P's record ++ I when P is a known prefix or synonym, 422 otherwise - on both frameworks, hence identically. "
    "Replay drives the real Flask test client and Starlette TestClient.")
BOUNDS = dict(records="<= 2", prefix_synonyms="<= 1", delimiters="':' and '/'", strings="unbounded length",
              alphabet="prefixes, URI prefixes and identifiers over URL-path-safe ASCII (unreserved, sub-delims, ':', '@'); identifier segments non-empty, not '.' or '..'")
OUTSIDE = ["HTTP parsing, percent-encoding / IRI quoting of the Location header, dot-segment normalisation (identity on the stated alphabet)",
           "ASGI / WSGI layers", "route shapes other than <group><delimiter><group> (Unsupported)", "delimiters other than ':' and '/'"]
ASSUMPTIONS = ["werkzeug matches a final rule part with re.match on the remaining path and a non-final part on one segment; starlette "
               "matches path_regex.match(path); both checked on every run by replaying path witnesses through the real test clients",
               "flask.abort(c) / HTTPException = status c; redirect(l) / RedirectResponse(l, 302) = 302 with Location l",
               "pydantic BaseModel stub, pytrie contract stub", "strict precondition; CURIE prefixes free of the delimiter and of '/'"]

SAFE = "abcdefghijklmnopqrstuvwxyzABCDEFGHIJKLMNOPQRSTUVWXYZ0123456789-._~!$&'()*+,;=:@"


def jobs(tier):
    out = []
    for d in (":", "/"):
        dn = "colon" if d == ":" else "slash"
        out.append(dict(name=f"match:{dn}", fn="match", params=dict(delim=d), budget_s=300, group="match", expect_outcomes=["matched"]))
        for fw in ("flask", "fastapi"):
            out.append(dict(name=f"resolve:{fw}:{dn}:[[1,0]]", fn="resolve", params=dict(delim=d, fw=fw, shape=[[1, 0]]), budget_s=600,
                            group=f"resolve:{fw}", expect_outcomes=["302", "422"]))
            if d == ":":
                out.append(dict(name=f"resolve:{fw}:{dn}:[[0,0]]:earlier-request", fn="resolve",
                                params=dict(delim=d, fw=fw, shape=[[0, 0]], earlier=True), budget_s=600,
                                group=f"resolve:{fw}", expect_outcomes=["302", "422"]))
            if d == ":":    # a record that carries an identifier pattern (which the statement does not let the answer depend on)
                out.append(dict(name=f"resolve:{fw}:{dn}:[[1,0]]:pattern", fn="resolve",
                                params=dict(delim=d, fw=fw, shape=[[1, 0]], patterns=["^\\d{7}$"]), budget_s=600,
                                group=f"resolve:{fw}", expect_outcomes=["302", "422"]))
            if tier == "thorough":
                out.append(dict(name=f"resolve:{fw}:{dn}:[[0,0],[1,0]]", fn="resolve", params=dict(delim=d, fw=fw, shape=[[0, 0], [1, 0]]),
                                budget_s=1800, shard_depth=6, group=f"resolve:{fw}", expect_outcomes=["302", "422"]))
    return out


def cls(chars):
    return z3.Union(*[z3.Re(c) for c in chars])


def languages(delim):
    safe = "".join(c for c in SAFE if c != delim and c != "/")
    seg_char = cls(SAFE) if delim != "/" else cls(safe)          # identifier segments may contain the delimiter (':')
    seg = z3.Intersect(z3.Plus(seg_char), z3.Complement(z3.Union(z3.Re("."), z3.Re(".."))))
    ident = z3.Concat(seg, z3.Star(z3.Concat(z3.Re("/"), seg)))
    # a prefix that is a dot-segment ('.' or '..') is normalised away by HTTP clients, like identifier segments
    pref = z3.Intersect(z3.Plus(cls(safe)), z3.Complement(z3.Union(z3.Re("."), z3.Re(".."))))
    return pref, ident, z3.Star(cls(SAFE + "/"))


def get_routes(eng, conv):
    resolver = eng.mods.resolver
    bp = resolver.get_flask_blueprint(conv)
    router = resolver.get_fastapi_router(conv)
    (frule, fhandler, _), = bp.routes
    (srule, shandler, _), = router.routes
    return dict(flask=(routes.from_werkzeug(frule), fhandler), fastapi=(routes.from_starlette(srule), shandler))


_CLIENTS = {}


def real_request(eng, conv, fw, path, earlier=()):
    """Concrete mode: drive the real in-process test client; returns (status, location) of the request for `path`, sent
    after the requests for the paths in `earlier` to the same application."""
    resolver = eng.mods.resolver
    if fw == "flask":
        client = resolver.get_flask_app(conv).test_client()
        for e in earlier:
            client.get(e, follow_redirects=False)
        resp = client.get(path, follow_redirects=False)
        return resp.status_code, resp.headers.get("Location")
    from starlette.testclient import TestClient
    client = TestClient(resolver.get_fastapi_app(conv))
    for e in earlier:
        client.get(e, follow_redirects=False)
    resp = client.get(path, follow_redirects=False)
    return resp.status_code, resp.headers.get("location")


def params_valid(eng, handler, values):
    """Constraints declared on the handler's parameters (fastapi.Path(pattern=..., min_length=..., max_length=...)):
    a request violating them is answered 422 by the framework before the handler runs."""
    import inspect
    from .. import rx, stubs
    for name, par in inspect.signature(handler).parameters.items():
        d = par.default
        if not isinstance(d, stubs._Param) or name not in values:
            continue
        v = values[name]
        pat = d.k.get("pattern") or d.k.get("regex")
        if pat is not None:
            if not isinstance(pat, str):
                raise stubs.Unsupported("symbolic parameter pattern")
            if not eng.branch(z3.InRe(_s(v), rx.compile_lang(pat, "search"))):     # pydantic patterns are searched, not anchored
                return False
        if d.k.get("min_length") is not None and not eng.branch(z3.Length(_s(v)) >= d.k["min_length"]):
            return False
        if d.k.get("max_length") is not None and not eng.branch(z3.Length(_s(v)) <= d.k["max_length"]):
            return False
    return True


def build(job):
    fn, params = job["fn"], job["params"]
    delim = params["delim"]

    def match(eng):
        api = eng.mods.api
        pref, ident, _ = languages(delim)
        requests = z3.Concat(z3.Re("/"), pref, z3.Re(delim), ident)
        path = eng.var("path")
        eng.assume(z3.InRe(_s(path), requests))
        conv = api.Converter([api.Record(prefix="p", uri_prefix="https://example.org/p/")], delimiter=delim)
        if eng.mods.symbolic:
            for fw, (route, _) in get_routes(eng, conv).items():
                eng.check_holds(z3.InRe(_s(path), route.lang), f"{fw}: a request '/<prefix>{delim}<identifier>' of the quantifier is not matched by the route (404)")
        else:
            for fw in ("flask", "fastapi"):
                status, _ = real_request(eng, conv, fw, path)
                eng.expect(status in (302, 422), f"{fw}: a request '/<prefix>{delim}<identifier>' of the quantifier is not matched by the route (404)")
        return "matched"

    def resolve(eng):
        api = eng.mods.api
        fw = params["fw"]
        pref, ident, urisafe = languages(delim)
        recs = mk_recs(eng, params["shape"])
        for r, pat in zip(recs, params.get("patterns") or []):
            r.pattern = pat
        assume_strict(eng, recs)
        for r in recs:
            # URI prefixes are absolute URLs over the URL-safe alphabet (a relative Location is rejected by HTTP clients)
            eng.assume(And([z3.InRe(_s(x), pref) for x in r.all_p],
                           [z3.InRe(_s(x), z3.Concat(z3.Re("https://e.org/"), urisafe)) for x in r.all_u]))
        conv = api.Converter([api.Record(**r.kwargs()) for r in recs], delimiter=delim)
        p, i = eng.var("p"), eng.var("i")      # the groups captured by the route for the request '/' p delim i
        # (P, I): the CURIE p+delim+i split at its first delimiter, as everywhere else in the library
        P, _, I = (p + delim + i).partition(delim)
        eng.assume(And(z3.InRe(_s(P), pref), z3.InRe(_s(I), ident)))
        earlier = []
        if params.get("earlier"):
            # the same application has answered another request before (same alphabets, independent strings)
            p2, i2 = eng.var("p_earlier"), eng.var("i_earlier")
            P2, _, I2 = (p2 + delim + i2).partition(delim)
            eng.assume(And(z3.InRe(_s(P2), pref), z3.InRe(_s(I2), ident)))
            earlier = [(p2, i2)]
        if eng.mods.symbolic:
            route, handler = get_routes(eng, conv)[fw]
            eng.assume(And(route.capture_constraints(_s(p), _s(i))))
            stubs = __import__("symcurie.stubs", fromlist=["x"])
            for p2, i2 in earlier:
                eng.assume(And(route.capture_constraints(_s(p2), _s(i2))))
                try:
                    if params_valid(eng, handler, dict(prefix=p2, identifier=i2)):
                        handler(prefix=p2, identifier=i2)
                except stubs.HTTPAbort:
                    pass
            try:
                if not params_valid(eng, handler, dict(prefix=p, identifier=i)):
                    raise stubs.HTTPAbort(422, "request validation")
                resp = handler(prefix=p, identifier=i)
                status, location = resp.status_code, resp.location
            except stubs.HTTPAbort as e:
                status, location = e.status_code, None
        else:
            status, location = real_request(eng, conv, fw, "/" + p + delim + i, ["/" + a + delim + b for a, b in earlier])
        owners = [r for r in recs if any(sym_eq(P, x) for x in r.all_p)]
        if owners:
            eng.expect(status == 302 and location is not None and sym_eq(location, owners[0].uri_prefix + I),
                       f"{fw}: a known prefix is not redirected (302) to the expansion of the CURIE split at its first delimiter")
            return "302"
        eng.expect(status == 422, f"{fw}: an unknown prefix is not answered with 422")
        return "422"

    return dict(match=match, resolve=resolve)[fn]
