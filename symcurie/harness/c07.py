"""C07 - derived operations agree with the two primitive parsers."""
from __future__ import annotations

import z3

from .common import And, Or, Q, T, _s, _val_eq, all_p, first_occurrence, fixture, longest_match, owner_of_prefix, shape_jobs, sym_eq, unknown_prefix

EXPLANATION = (
    "is_uri, is_curie, parse, compress_or_standardize, expand_or_standardize, compress_strict, expand_strict, format_curie "
    "(and compress, expand, parse_uri, parse_curie beneath them) run on a symbolic strict converter and one symbolic string "
    "s that is either free of the delimiter or of the form P+delimiter+I split at that occurrence (together: every string; "
    "s ranges over strings that are simultaneously URI and CURIE of the converter, over '' and over delimiter-free strings). "
    "Obligations: the chain of equivalences of the statement, URI precedence in parse, the *_or_standardize functions equal "
    "the CURIE / canonical URI of parse(s), the *_strict variants behave as the strict=True calls. An exception escaping "
    "expand in default mode is C08's subject and is treated here as 'no result'.")
BOUNDS = dict(records="<= 3", synonyms_per_side="<= 1", strings="unbounded, full z3 alphabet", delimiter="':' and symbolic")
OUTSIDE = ["more than 3 records", "non-strict converters"]
ASSUMPTIONS = ["pytrie longest-prefix contract stub", "pydantic BaseModel stub (validator bodies real)",
               "strict converter precondition"]

SHAPES = [
    ("agree", [[1, 1]], False, Q), ("agree", [[1, 1]], True, Q), ("agree", [[0, 0], [0, 0]], False, Q),
    ("agree", [[1, 0]], False, Q, dict(params=dict(patterns=["^\\d{7}$"]))),
    ("agree", [[0, 0], [0, 0]], False, Q, dict(params=dict(built="grow"), shard=5)), ("agree", [[0, 1]], False, Q, dict(params=dict(built="used"))),
    ("agree", [[1, 1], [1, 1]], False, T, dict(budget=1800, shard=8)),
    ("agree", [[0, 0], [0, 0]], True, T, dict(budget=1200, shard=6)),
    ("agree", [[0, 0]] * 3, False, T, dict(budget=2400, shard=9)),
    ("agree", [[1, 1], [1, 1]], True, T, dict(budget=3000, shard=10)),
    ("agree", [[0, 1]] * 3, False, T, dict(budget=3000, shard=10)),
]


def jobs(tier):
    return shape_jobs(SHAPES, tier, {"agree": ["uri", "curie", "neither"]})


def _call(f, *a, **k):
    """-> ('value', v) or ('raised', exception class name)"""
    try:
        return "value", f(*a, **k)
    except ValueError as e:
        return "raised", type(e).__name__


def build(job):
    params = job["params"]

    def run(eng):
        api = eng.mods.api
        # the statement does not restrict the registered prefixes: they may contain the delimiter (the CURIE side is
        # still well defined because the string is split at its first delimiter into (P, I))
        recs, delim, c = fixture(eng, params, prefixes_without_delim=False)
        d = _s(delim)
        if eng.flag("has_delim"):
            P, I = eng.var("P"), eng.var("I")
            eng.assume(first_occurrence(P, delim))
            s = P + delim + I
        else:
            P = I = None
            s = eng.var("s")
            eng.assume(z3.Not(z3.Contains(_s(s), d)))
        # --- URI side
        pu = c.parse_uri(s, return_none=True)
        cs = c.compress(s)
        iu = c.is_uri(s)
        eng.expect((pu is not None) == (cs is not None) == bool(iu), "is_uri / compress / parse_uri disagree on whether s is a URI")
        # --- CURIE side
        kind, ex = _call(c.expand, s)
        ex = ex if kind == "value" else None
        ic = c.is_curie(s)
        eng.expect((ex is not None) == bool(ic), "is_curie disagrees with expand")
        if P is None:
            eng.expect(not ic, "is_curie accepts a string without the delimiter")
            pc_ = None
        else:
            if ic:
                eng.check_holds(Or([_s(x) == _s(P) for x in all_p(recs)]), "is_curie accepts an unknown prefix")
            else:
                eng.check_holds(unknown_prefix(recs, _s(P)), "is_curie rejects a known prefix followed by the delimiter")
            kind, pc_ = _call(c.parse_curie, s)
            pc_ = pc_ if kind == "value" else None
            if ic:
                if pc_ is None:
                    eng.fail("parse_curie gives nothing for a recognised CURIE")
                else:
                    eng.check_holds(owner_of_prefix(recs, _s(P), lambda r: And(_s(pc_[0]) == _s(r.prefix), _s(pc_[1]) == _s(I))),
                                    "parse_curie is not (canonical prefix, identifier)")
        # --- parse: URI first, then CURIE, else nothing
        pr = c.parse(s, strict=False)
        want = pu if iu else (pc_ if ic else None)
        if want is None:
            eng.expect(pr is None, "parse returns a reference for a string that is neither URI nor CURIE")
        else:
            eng.expect(pr is not None and _val_eq(tuple(pr), tuple(want)),
                       "parse is not the URI parse (precedence) / the CURIE parse")
        cos = c.compress_or_standardize(s)
        eos = c.expand_or_standardize(s)
        if pr is None:
            eng.expect(cos is None and eos is None, "*_or_standardize return a value although parse(s) is nothing")
        else:
            if cos is None or eos is None:
                eng.fail("*_or_standardize return nothing although parse(s) is a reference")
            else:
                eng.check_holds(_s(cos) == z3.Concat(_s(pr[0]), d, _s(pr[1])), "compress_or_standardize is not the CURIE of parse(s)")
                eng.check_holds(Or([And(_s(pr[0]) == _s(r.prefix), _s(eos) == z3.Concat(_s(r.uri_prefix), _s(pr[1]))) for r in recs]),
                                "expand_or_standardize is not the canonical URI of parse(s)")
        # --- format_curie and the *_strict variants
        a, b = eng.var("fa"), eng.var("fb")
        eng.check_holds(_s(c.format_curie(a, b)) == z3.Concat(_s(a), d, _s(b)), "format_curie does not join with the delimiter")
        for strict_f, base_f in ((c.compress_strict, c.compress), (c.expand_strict, c.expand)):
            k1, v1 = _call(strict_f, s)
            k2, v2 = _call(base_f, s, strict=True)
            eng.expect(k1 == k2 and (_val_eq(v1, v2) if k1 == "value" else v1 == v2),
                       f"{strict_f.__name__} differs from {base_f.__name__}(strict=True)")
        return "uri" if iu else ("curie" if ic else "neither")
    return run
