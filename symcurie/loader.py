"""Loader: compile the repository's current source through a purely syntactic AST rewrite into a
namespace whose builtins are proxy-aware and whose third-party imports are the stubs.

The encoding is regenerated from /repo's working tree on every run (nothing is cached on disk).
"""
from __future__ import annotations

import ast
import builtins
import os
import sys
import types
from pathlib import Path

from . import core as sc
from . import rx, stubs
from .core import SymDict, SymSet, SymStr, Unsupported

REPO_SRC = Path(os.environ.get("SYMCURIE_SRC", "/repo/src/curies"))
PKG = "curies_sx"


# --------------------------------------------------------------------------- AST rewrite
class Rewriter(ast.NodeTransformer):
    def visit_JoinedStr(self, node):
        self.generic_visit(node)
        parts = []
        for v in node.values:
            if isinstance(v, ast.Constant):
                parts.append(v)
            else:
                val = v.value
                if v.format_spec is not None:
                    val = ast.Call(ast.Name("__sym_format__", ast.Load()), [val, v.format_spec], [])
                elif v.conversion == ord("r"):
                    val = ast.Call(ast.Name("__sym_repr__", ast.Load()), [val], [])
                elif v.conversion == ord("s"):
                    val = ast.Call(ast.Name("str", ast.Load()), [val], [])
                parts.append(val)
        return ast.copy_location(ast.Call(ast.Name("__sym_fmt__", ast.Load()), parts, []), node)

    def visit_Dict(self, node):
        self.generic_visit(node)
        items = []
        for k, v in zip(node.keys, node.values):
            if k is None:   # {**other}
                items.append(ast.Starred(ast.Call(ast.Name("__sym_items__", ast.Load()), [v], []), ast.Load()))
            else:
                items.append(ast.Tuple([k, v], ast.Load()))
        return ast.copy_location(
            ast.Call(ast.Name("__sym_dict__", ast.Load()), [ast.List(items, ast.Load())], []), node)

    def visit_DictComp(self, node):
        self.generic_visit(node)
        lc = ast.ListComp(ast.Tuple([node.key, node.value], ast.Load()), node.generators)
        return ast.copy_location(ast.Call(ast.Name("__sym_dict__", ast.Load()), [lc], []), node)

    def visit_Set(self, node):
        self.generic_visit(node)
        return ast.copy_location(
            ast.Call(ast.Name("__sym_set__", ast.Load()), [ast.List(node.elts, ast.Load())], []), node)

    def visit_SetComp(self, node):
        self.generic_visit(node)
        lc = ast.ListComp(node.elt, node.generators)
        return ast.copy_location(ast.Call(ast.Name("__sym_set__", ast.Load()), [lc], []), node)

    def visit_Compare(self, node):
        self.generic_visit(node)
        if len(node.ops) == 1 and isinstance(node.ops[0], (ast.In, ast.NotIn)):
            call = ast.Call(ast.Name("__sym_in__", ast.Load()), [node.left, node.comparators[0]], [])
            if isinstance(node.ops[0], ast.NotIn):
                call = ast.UnaryOp(ast.Not(), call)
            return ast.copy_location(call, node)
        return node

    def visit_Call(self, node):
        self.generic_visit(node)
        f = node.func
        if isinstance(f, ast.Attribute) and f.attr == "join" and len(node.args) == 1 and not node.keywords:
            return ast.copy_location(
                ast.Call(ast.Name("__sym_join__", ast.Load()), [f.value, node.args[0]], []), node)
        if isinstance(f, ast.Attribute) and f.attr == "format" and not isinstance(f.value, ast.Constant):
            # template.format(...): real str.format would reject proxy arguments
            return ast.copy_location(
                ast.Call(ast.Name("__sym_fmtcall__", ast.Load()), [f.value, *node.args], node.keywords), node)
        if isinstance(f, ast.Attribute) and isinstance(f.value, ast.Constant) and isinstance(f.value.value, str):
            # "literal".method(args): a real str method would reject proxy arguments
            return ast.copy_location(
                ast.Call(ast.Name("__sym_strcall__", ast.Load()),
                         [f.value, ast.Constant(f.attr), *node.args], node.keywords), node)
        return node

    def visit_ClassDef(self, node):
        self.generic_visit(node)
        node.bases = [
            ast.Name("__sym_strbase__", ast.Load()) if isinstance(b, ast.Name) and b.id == "str" else b
            for b in node.bases
        ]
        return node


def sym_repr(x):
    if isinstance(x, SymStr):
        return "<sym>"
    try:
        return repr(x)
    except Unsupported:
        return "<sym-obj>"


def sym_format(x, spec):
    if isinstance(x, (SymStr, sc.SymInt)):
        if spec in ("", "s"):
            return x
        raise Unsupported("format spec on a symbolic value")
    return format(x, spec)


def sym_items(d):
    return list(d.items())


def sym_fmtcall(template, *args, **kw):
    """template.format(*args, **kw) where arguments may be proxies (plain {}, {0}, {name} fields only)."""
    if not isinstance(template, str):
        return template.format(*args, **kw)
    if not any(isinstance(a, SymStr) for a in list(args) + list(kw.values())):
        return template.format(*args, **kw)
    import string
    out, auto = None, 0
    for lit, field, spec, conv in string.Formatter().parse(template):
        pieces = [lit] if lit else []
        if field is not None:
            if spec or conv:
                raise Unsupported("str.format with a format spec / conversion on proxy arguments")
            if field == "":
                val, auto = args[auto], auto + 1
            elif field.isdigit():
                val = args[int(field)]
            elif field.isidentifier():
                val = kw[field]
            else:
                raise Unsupported("str.format with attribute / index fields on proxy arguments")
            pieces.append(val if sc.is_strlike(val) else sc.sym_str(val))
        for x in pieces:
            out = x if out is None else out + x
    return "" if out is None else out


def sym_strcall(lit, meth, *args, **kw):
    if meth == "format":
        return sym_fmtcall(lit, *args, **kw)
    if any(isinstance(a, SymStr) for a in args):
        return getattr(SymStr(lit), meth)(*args, **kw)
    return getattr(lit, meth)(*args, **kw)


# --------------------------------------------------------------------------- function coverage
ENTERED = set()
_TOOL = 3


def _on_start(code, offset):
    fn = code.co_filename
    if fn.startswith(str(REPO_SRC)):
        ENTERED.add(f"{os.path.relpath(fn, REPO_SRC.parent.parent)}::{code.co_qualname}")
    return sys.monitoring.DISABLE


def start_coverage():
    try:
        sys.monitoring.use_tool_id(_TOOL, "symcurie")
        sys.monitoring.register_callback(_TOOL, sys.monitoring.events.PY_START, _on_start)
        sys.monitoring.set_events(_TOOL, sys.monitoring.events.PY_START)
    except (ValueError, AttributeError):
        pass


# --------------------------------------------------------------------------- module loading
_loaded: dict[str, types.ModuleType] = {}
_RE_MODULE = None


_UNICODEDATA = None


def _stub_for(name):
    global _RE_MODULE, _UNICODEDATA
    if name == "unicodedata":
        if _UNICODEDATA is None:
            import unicodedata
            _UNICODEDATA = types.ModuleType("unicodedata")
            _UNICODEDATA.__dict__.update({k: getattr(unicodedata, k) for k in dir(unicodedata) if not k.startswith("__")})
            _UNICODEDATA.normalize = sc.sym_normalize
        return _UNICODEDATA
    if name == "re":
        if _RE_MODULE is None:
            _RE_MODULE = rx.make_re_module()
        return _RE_MODULE
    return stubs.STUBS.get(name)


class _LazyPackage(types.ModuleType):
    """`import curies` / `from curies import X` inside the rewritten modules."""

    _where = None

    def __getattr__(self, name):
        if _LazyPackage._where is None:
            init = ast.parse((REPO_SRC / "__init__.py").read_text())
            w = {}
            for node in init.body:
                if isinstance(node, ast.ImportFrom) and node.level == 1 and node.module:
                    for a in node.names:
                        w[a.asname or a.name] = (node.module, a.name)
            _LazyPackage._where = w
        if name in _LazyPackage._where:
            mod, attr = _LazyPackage._where[name]
            return getattr(load(mod), attr)
        try:
            return load(name)
        except FileNotFoundError:
            raise AttributeError(name) from None


_PKG_OBJ = _LazyPackage(PKG)


def _import_hook(name, globals=None, locals=None, fromlist=(), level=0):
    if level > 0:
        pkg = globals["__package__"]
        parts = pkg.split(".")
        base = parts[: len(parts) - (level - 1)]
        rel = ".".join(base[1:])
        if name:
            return load((rel + "." if rel else "") + name)
        m = types.ModuleType(pkg)
        for f in fromlist:
            setattr(m, f, load((rel + "." if rel else "") + f))
        return m
    if name == "curies":
        return _PKG_OBJ
    if name.startswith("curies."):
        sub = load(name[len("curies."):])
        return sub if fromlist else _PKG_OBJ
    st = _stub_for(name)
    if st is not None:
        if not fromlist and "." in name:
            return _stub_for(name.split(".")[0]) or st
        return st
    return builtins.__import__(name, globals, locals, fromlist, level)


def _builtins_dict():
    b = dict(vars(builtins))
    b.update(
        __import__=_import_hook, len=sc.sym_len, isinstance=sc.sym_isinstance, str=sc.sym_str,
        dict=SymDict, set=SymSet, frozenset=SymSet, hash=sc.sym_hash, float=sc.sym_float, open=stubs.stub_open,
        int=sc.sym_int, ord=sc.sym_ord, print=sc.sym_print,
        __sym_fmt__=sc.sym_fmt, __sym_dict__=SymDict, __sym_set__=SymSet, __sym_in__=sc.sym_in,
        __sym_join__=sc.sym_join, __sym_repr__=sym_repr, __sym_strbase__=stubs.SymStrBase,
        __sym_format__=sym_format, __sym_items__=sym_items, __sym_strcall__=sym_strcall, __sym_fmtcall__=sym_fmtcall,
    )
    return b


def source_path(modname: str):
    rel = modname.replace(".", "/")
    path = REPO_SRC / (rel + ".py")
    if path.exists():
        return path, False
    path = REPO_SRC / rel / "__init__.py"
    if path.exists():
        return path, True
    raise FileNotFoundError(modname)


def load(modname: str):
    """modname relative to the curies package, e.g. 'api' or 'mapping_service.utils'."""
    if modname in _loaded:
        return _loaded[modname]
    path, is_pkg = source_path(modname)
    src = path.read_text()
    tree = ast.parse(src, filename=str(path))
    tree = Rewriter().visit(tree)
    ast.fix_missing_locations(tree)
    code = compile(tree, str(path), "exec")
    full = f"{PKG}.{modname}"
    m = types.ModuleType(full)
    m.__file__ = str(path)
    m.__package__ = full if is_pkg else full.rsplit(".", 1)[0]
    m.__dict__["__builtins__"] = _builtins_dict()
    sys.modules[full] = m
    _loaded[modname] = m
    try:
        exec(code, m.__dict__)
    except BaseException:
        _loaded.pop(modname, None)
        sys.modules.pop(full, None)
        raise
    _snapshot_module_state(m)
    return m


_MODULE_STATE = []      # (container, saved contents) for every mutable module-level container of the rewritten modules


def _snapshot_module_state(m):
    """Module-level containers (memo tables and the like) must not carry what one explored path put into them over to
    the next path: every path starts from the state the module had right after import."""
    for name, val in list(m.__dict__.items()):
        if name.startswith("__"):
            continue
        if isinstance(val, SymDict):
            _MODULE_STATE.append((val, (list(val._k), list(val._v))))
        elif isinstance(val, SymSet):
            _MODULE_STATE.append((val, list(val._e)))
        elif isinstance(val, (list, dict, set)):
            _MODULE_STATE.append((val, val.copy()))


def _restore_module_state():
    for obj, saved in _MODULE_STATE:
        if isinstance(obj, SymDict):
            obj._k[:], obj._v[:] = list(saved[0]), list(saved[1])
        elif isinstance(obj, SymSet):
            obj._e[:] = list(saved)
        elif isinstance(obj, list):
            obj[:] = saved
        else:
            obj.clear()
            obj.update(saved)


sc.PATH_RESET.append(_restore_module_state)


class SymModules:
    """Namespace handed to harnesses in symbolic mode."""
    symbolic = True

    def __getattr__(self, name):
        key = {"utils": "mapping_service.utils", "msapi": "mapping_service.api", "rec": "reconciliation",
               "disc": "discovery", "resolver": "resolver_service", "rdfc": "mapping_service.rdflib_custom"}.get(name, name)
        m = load(key)
        setattr(self, name, m)
        return m


class RealModules:
    """Namespace handed to harnesses in concrete (replay) mode: the real, unmodified stack."""
    symbolic = False

    def __getattr__(self, name):
        import importlib
        src = str(REPO_SRC.parent)
        if src not in sys.path:
            sys.path.insert(0, src)
        key = {"utils": "curies.mapping_service.utils", "msapi": "curies.mapping_service.api",
               "rec": "curies.reconciliation", "rdfc": "curies.mapping_service.rdflib_custom", "disc": "curies.discovery", "resolver": "curies.resolver_service",
               "api": "curies.api", "w3c": "curies.w3c", "triples": "curies.triples"}.get(name, "curies." + name)
        m = importlib.import_module(key)
        if not str(getattr(m, "__file__", "")).startswith(str(REPO_SRC.parent)):
            raise RuntimeError(f"real module {key} was not imported from {REPO_SRC}: {m.__file__}")
        setattr(self, name, m)
        return m
