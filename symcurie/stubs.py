"""Environment model: contract stubs for the third-party / C-level code curies calls.

Each stub is part of every claim that uses it (DESIGN section 2.5).  The *bodies* of curies' own
validators, handlers and helpers are always the real source.
"""
from __future__ import annotations

import collections as _real_collections
import sys
import types

import z3

from . import core as sc
from .core import E, SymDefaultDict, SymDict, SymSet, SymStr, Unsupported

USED = set()   # names of stubs actually exercised in this process (reported in evidence)


def _mk_module(name, **attrs):
    m = types.ModuleType(name)
    m.__dict__.update(attrs)
    return m


class _Anything:
    def __getattr__(self, k):
        return _Anything()

    def __call__(self, *a, **k):
        return _Anything()


# =========================================================================== pydantic
class ValidationError(ValueError):
    pass


class _FieldInfo:
    def __init__(self, default=..., default_factory=None, **kw):
        self.default = default
        self.default_factory = default_factory
        self.annotation = "Any"


def Field(default=..., **kw):
    return _FieldInfo(default, kw.get("default_factory"))


class _FV:
    def __init__(self, fields, fn, mode):
        self.fields, self.fn, self.mode = fields, fn, mode


def field_validator(*fields, mode="after", **kw):
    def deco(fn):
        return _FV(fields, fn, mode)
    return deco


class _MV:
    def __init__(self, mode, fn):
        self.mode, self.fn = mode, fn


def model_validator(*, mode):
    def deco(fn):
        return _MV(mode, fn)
    return deco


_CONFIG_KEYS = {"frozen", "str_strip_whitespace", "str_to_lower", "str_to_upper"}


def ConfigDict(**kw):
    unknown = set(kw) - _CONFIG_KEYS
    if unknown:
        raise Unsupported(f"pydantic ConfigDict option(s) {sorted(unknown)} are not modelled by the BaseModel stub")
    return dict(kw)


class _Info:
    def __init__(self, data, context, field_name=None):
        self.data = data
        self.context = context
        self.field_name = field_name


def _unwrap(fn):
    return fn.__func__ if isinstance(fn, (classmethod, staticmethod)) else fn


class BaseModel:
    model_config: dict = {}
    __sym_fields__: dict = {}
    __sym_fvs__: list = []
    __sym_mvs__: list = []

    def __init_subclass__(cls, **kw):
        super().__init_subclass__(**kw)
        USED.add("pydantic.BaseModel")
        fields = dict(cls.__sym_fields__)
        fvs = list(cls.__sym_fvs__)
        mvs = list(cls.__sym_mvs__)
        ann = cls.__dict__.get("__annotations__", {})
        for name, a in ann.items():
            if name == "model_config" or name.startswith("_"):
                continue
            astr = a if isinstance(a, str) else getattr(a, "__name__", str(a))
            if astr.startswith("ClassVar"):
                continue
            dv = cls.__dict__.get(name, ...)
            fi = dv if isinstance(dv, _FieldInfo) else _FieldInfo(dv)
            fi.annotation = astr
            fields[name] = fi
            if name in cls.__dict__:
                try:
                    delattr(cls, name)
                except AttributeError:
                    pass
        for name, v in list(cls.__dict__.items()):
            if isinstance(v, _FV):
                fvs.append(v)
                setattr(cls, name, v.fn)
            elif isinstance(v, _MV):
                mvs.append(v)
                setattr(cls, name, v.fn)
        cls.__sym_fields__ = fields
        cls.__sym_fvs__ = fvs
        cls.__sym_mvs__ = mvs
        cls.model_fields = fields

    def __init__(self, **data):
        self._sym_validate(data, None)

    @classmethod
    def model_validate(cls, obj, *, context=None, **kw):
        if isinstance(obj, cls):
            return obj
        self = cls.__new__(cls)
        self._sym_validate(obj, context)
        return self

    @classmethod
    def model_construct(cls, **data):
        self = cls.__new__(cls)
        for k, fi in cls.__sym_fields__.items():
            v = data.get(k, ...)
            if v is ...:
                v = fi.default_factory() if fi.default_factory else (None if fi.default is ... else fi.default)
            object.__setattr__(self, k, v)
        object.__setattr__(self, "__sym_fields_set__", set(data))
        return self

    def _sym_validate(self, data, context):
        cls = type(self)
        for mv in cls.__sym_mvs__:
            if mv.mode == "before":
                try:
                    data = _unwrap(mv.fn)(cls, data)
                except (ValueError, AssertionError) as e:
                    raise ValidationError(f"model validator: {type(e).__name__}") from None
        if isinstance(data, BaseModel):
            data = {k: getattr(data, k) for k in type(data).__sym_fields__}
        if not isinstance(data, (dict, SymDict)):
            raise ValidationError("model input must be a dict")
        done = {}
        errors = []
        for name, fi in cls.__sym_fields__.items():
            v = data.get(name, ...)
            try:
                if v is ...:
                    if fi.default_factory is not None:
                        v = fi.default_factory()
                    elif fi.default is not ...:
                        v = fi.default
                    else:
                        raise ValidationError(f"missing field {name}")
                else:
                    for fv in cls.__sym_fvs__:
                        if name in fv.fields and fv.mode == "before":
                            v = self._call_fv(fv, v, done, context, name)
                    v = _coerce(cls, name, fi.annotation, v, done, context)
                    for fv in cls.__sym_fvs__:
                        if name in fv.fields and fv.mode != "before":
                            v = self._call_fv(fv, v, done, context, name)
            except ValidationError as e:
                errors.append(e)
                continue
            done[name] = v
        if errors:
            raise errors[0]
        for name, v in done.items():
            object.__setattr__(self, name, v)
        object.__setattr__(self, "__sym_fields_set__", {k for k in cls.__sym_fields__ if data.get(k, ...) is not ...})
        for mv in cls.__sym_mvs__:
            if mv.mode == "after":
                try:
                    _unwrap(mv.fn)(self)
                except (ValueError, AssertionError) as e:
                    raise ValidationError(f"model validator: {type(e).__name__}") from None

    def _call_fv(self, fv, v, done, context, name):
        import inspect
        fn = _unwrap(fv.fn)
        try:
            nparams = len(inspect.signature(fn).parameters)
            if nparams >= 3:
                return fn(type(self), v, _Info(done, context, name))
            return fn(type(self), v)
        except (ValueError, AssertionError) as e:
            raise ValidationError(f"field validator {fn.__name__}: {type(e).__name__}") from None

    def __setattr__(self, k, v):
        if type(self).model_config.get("frozen"):
            raise ValidationError("Instance is frozen")
        if k not in type(self).__sym_fields__ and not k.startswith("_"):
            raise ValueError(f'"{type(self).__name__}" object has no field "{k}"')
        object.__setattr__(self, k, v)
        if k in type(self).__sym_fields__:
            self.__dict__.setdefault("__sym_fields_set__", set()).add(k)

    def __delattr__(self, k):
        if type(self).model_config.get("frozen"):
            raise ValidationError("Instance is frozen")
        object.__delattr__(self, k)

    def __eq__(self, other):
        if not isinstance(other, BaseModel) or type(self) is not type(other):
            return False
        for k in type(self).__sym_fields__:
            if not _deep_eq(getattr(self, k), getattr(other, k)):
                return False
        return True

    def __ne__(self, other):
        return not self.__eq__(other)

    __hash__ = None

    def model_copy(self, *, deep=False, update=None):
        # pydantic copies the whole instance __dict__ (fields and anything cached on the instance)
        new = type(self).__new__(type(self))
        for k, v in self.__dict__.items():
            new.__dict__[k] = _deep_copy(v) if deep else v
        for k, v in (update or {}).items():
            new.__dict__[k] = v
            new.__dict__.setdefault("__sym_fields_set__", set()).add(k)
        return new

    @property
    def model_fields_set(self):
        return set(self.__dict__.get("__sym_fields_set__", type(self).__sym_fields__))

    copy = model_copy

    def __copy__(self):
        return self.model_copy()

    def __deepcopy__(self, memo=None):
        return self.model_copy(deep=True)

    def model_dump(self, **kw):
        out = SymDict()
        for k, fi in type(self).__sym_fields__.items():
            v = getattr(self, k)
            if kw.get("exclude_none") and v is None:
                continue
            if kw.get("exclude_unset") and k not in self.model_fields_set:
                continue
            if kw.get("exclude_defaults"):
                dflt = fi.default_factory() if fi.default_factory is not None else fi.default
                if dflt is not ... and _deep_eq(v, dflt):
                    continue
            if kw.get("include") is not None and k not in kw["include"]:
                continue
            if kw.get("exclude") is not None and k in kw["exclude"]:
                continue
            out[k] = _dump(v)
        return out

    dict = model_dump

    def model_dump_json(self, **kw):
        raise Unsupported("model_dump_json (pydantic_core serializer)")

    def __repr__(self):
        return f"<{type(self).__name__} sym>"

    def __sym_str__(self):
        return f"<{type(self).__name__}>"

    def __iter__(self):
        for k in type(self).__sym_fields__:
            yield k, getattr(self, k)


def _dump(v):
    if isinstance(v, BaseModel):
        return v.model_dump()
    if isinstance(v, list):
        return [_dump(x) for x in v]
    return v


def _deep_copy(v):
    if isinstance(v, list):
        return [_deep_copy(x) for x in v]
    if isinstance(v, set):
        return set(v)
    if isinstance(v, BaseModel):
        return v.model_copy(deep=True)
    if isinstance(v, SymDict):
        return SymDict([(k, _deep_copy(x)) for k, x in v.items()])
    return v


def _deep_eq(a, b):
    if isinstance(a, (list, tuple)) and isinstance(b, (list, tuple)):
        return type(a) is type(b) and len(a) == len(b) and all(_deep_eq(x, y) for x, y in zip(a, b))
    if a is None or b is None:
        return a is b
    return sc.sym_eq(a, b)


def _resolve_cls(cls, name):
    for klass in cls.__mro__:
        mod = sys.modules.get(klass.__module__)
        if mod is not None and hasattr(mod, name):
            return getattr(mod, name)
    return None


def _coerce(cls, name, a, v, done, context):
    a = a.strip()
    if a.startswith("Optional[") or a.endswith("| None") or a.startswith("None |"):
        if v is None:
            return None
        inner = a[len("Optional["):-1] if a.startswith("Optional[") else a.replace("| None", "").replace("None |", "").strip()
        return _coerce(cls, name, inner, v, done, context)
    if a.startswith(("list[", "List[", "Sequence[", "Collection[")):
        if sc.is_strlike(v) or isinstance(v, (dict, SymDict, bytes)):
            raise ValidationError(f"{name}: not a list")
        try:
            items = list(v)
        except TypeError:
            raise ValidationError(f"{name}: not a list") from None
        inner = a[a.index("[") + 1:-1]
        return [_coerce(cls, name, inner, x, done, context) for x in items]
    if a == "str":
        if not sc.is_strlike(v):
            raise ValidationError(f"{name}: not a str")
        cfg = getattr(cls, "model_config", None) or {}
        if cfg.get("str_strip_whitespace"):
            v = v.strip()
        if cfg.get("str_to_lower"):
            v = v.lower()
        if cfg.get("str_to_upper"):
            v = v.upper()
        return v
    if a == "bool":
        if isinstance(v, (bool, sc.SymBool)):
            return v
        raise ValidationError(f"{name}: not a bool")
    target = _resolve_cls(cls, a)
    if isinstance(target, type):
        if issubclass(target, BaseModel):
            if isinstance(v, target):
                return v
            return target.model_validate(v, context=context)
        if hasattr(target, "_validate") and (issubclass(target, str) or issubclass(target, SymStrBase)):
            if not sc.is_strlike(v):
                raise ValidationError(f"{name}: not a str")
            try:
                return target._validate(v, _Info(done, context, name))
            except ValueError as e:
                raise ValidationError(f"{name}: {type(e).__name__}") from None
    return v


class RootModel(BaseModel):
    __root_type__ = None

    def __class_getitem__(cls, item):
        return type(f"RootModel[{item}]", (cls,), {"__root_type__": item, "__module__": cls.__module__})

    def __init__(self, root=..., **data):
        object.__setattr__(self, "root", self._coerce_root(data if root is ... else root, None))

    @classmethod
    def _coerce_root(cls, v, context):
        import typing
        t = cls.__root_type__
        origin, args = typing.get_origin(t), typing.get_args(t)
        if origin is list and args and isinstance(args[0], type) and issubclass(args[0], BaseModel):
            if sc.is_strlike(v) or isinstance(v, (dict, SymDict)):
                raise ValidationError("root: not a list")
            return [x if isinstance(x, args[0]) else args[0].model_validate(x, context=context) for x in v]
        if origin is dict and args:
            if not isinstance(v, (dict, SymDict)):
                raise ValidationError("root: not a dict")
            kt = args[0]
            out = SymDict()
            for k, x in v.items():
                if isinstance(kt, type) and hasattr(kt, "_validate"):
                    try:
                        k = kt._validate(k, _Info({}, context))
                    except ValueError as e:
                        raise ValidationError(f"root key: {type(e).__name__}") from None
                out[k] = x
            return out
        return v

    @classmethod
    def model_validate(cls, obj, *, context=None, **kw):
        self = cls.__new__(cls)
        object.__setattr__(self, "root", cls._coerce_root(obj, context))
        return self

    def __eq__(self, other):
        return type(self) is type(other) and _deep_eq(self.root, other.root)


class SymStrBase(str):
    """`class Prefix(str)` is rewritten to derive from this: construction from a proxy is the identity."""

    def __new__(cls, v=""):
        if isinstance(v, SymStr):
            return v
        return str.__new__(cls, v)


PYDANTIC = _mk_module(
    "pydantic", BaseModel=BaseModel, ConfigDict=ConfigDict, Field=Field, GetCoreSchemaHandler=object,
    RootModel=RootModel, field_validator=field_validator, model_validator=model_validator,
    ValidationError=ValidationError, ValidationInfo=_Info)
PYDANTIC_CORE = _mk_module("pydantic_core", core_schema=_Anything(), ValidationError=ValidationError)


# =========================================================================== pytrie (contract)
class StringTrie:
    """Contract model of pytrie.StringTrie: a mapping whose longest_prefix_item(q) returns the (k, v)
    with k the longest stored key that is a prefix of q, KeyError (or default) if none."""

    def __init__(self, *args, **kw):
        USED.add("pytrie.StringTrie")
        self._d = SymDict()
        if args:
            self._d.update(args[0])
        self._d.update(**kw)

    def __setitem__(self, k, v): self._d[k] = v
    def __getitem__(self, k): return self._d[k]
    def __delitem__(self, k): del self._d[k]
    def __contains__(self, k): return k in self._d
    def __len__(self): return len(self._d)
    def __iter__(self): return iter(self._d)
    def __bool__(self): return bool(self._d)
    def get(self, k, default=None): return self._d.get(k, default)
    def pop(self, k, *d): return self._d.pop(k, *d)
    def setdefault(self, k, d=None): return self._d.setdefault(k, d)
    def update(self, *a, **k): self._d.update(*a, **k)
    def clear(self): self._d.clear()

    def copy(self):
        t = StringTrie()
        t._d = self._d.copy()
        return t

    def keys(self, prefix=None):
        if prefix is not None:
            return [k for k in self._d if bool(sc.SymBool(z3.PrefixOf(sc._s(prefix), sc._s(k))))]
        return list(self._d.keys())

    def values(self, prefix=None):
        if prefix is not None:
            return [self._d[k] for k in self.keys(prefix)]
        return self._d.values()

    def items(self, prefix=None):
        if prefix is not None:
            return [(k, self._d[k]) for k in self.keys(prefix)]
        return self._d.items()

    iterkeys, itervalues, iteritems = keys, values, items

    def longest_prefix_item(self, key, default=...):
        keys = list(self._d.keys())
        vals = self._d.values()
        ke = [sc._s(k) for k in keys]
        q = sc._s(key)
        for i in range(len(keys)):
            is_best = z3.And(
                z3.PrefixOf(ke[i], q),
                *[z3.Implies(z3.PrefixOf(ke[j], q), z3.Length(ke[j]) <= z3.Length(ke[i]))
                  for j in range(len(keys)) if j != i])
            if E().branch(is_best):
                return keys[i], vals[i]
        if default is not ...:
            return default
        raise KeyError(key)

    def longest_prefix(self, key, default=...):
        try:
            return self.longest_prefix_item(key)[0]
        except KeyError:
            if default is not ...:
                return default
            raise

    def longest_prefix_value(self, key, default=...):
        try:
            return self.longest_prefix_item(key)[1]
        except KeyError:
            if default is not ...:
                return default
            raise

    def iter_prefix_items(self, key):
        q = sc._s(key)
        hits = [(k, v) for k, v in self._d.items() if E().branch(z3.PrefixOf(sc._s(k), q))]
        return iter(sorted(hits, key=lambda kv: sc.sym_len(kv[0])))

    def iter_prefixes(self, key):
        return (k for k, _ in self.iter_prefix_items(key))

    def iter_prefix_values(self, key):
        return (v for _, v in self.iter_prefix_items(key))


PYTRIE = _mk_module("pytrie", StringTrie=StringTrie, Trie=StringTrie)


# =========================================================================== collections
class Counter(SymDict):
    def __init__(self, it=()):
        super().__init__()
        if isinstance(it, (dict, SymDict)):
            for k, v in it.items():
                self[k] = v
        else:
            for x in it:
                self[x] = self.get(x, 0) + 1

    def __missing__(self, k):
        return 0

    def most_common(self, n=None):
        raise Unsupported("Counter.most_common")


COLLECTIONS = _mk_module("collections", defaultdict=SymDefaultDict, Counter=Counter, OrderedDict=SymDict)
for _n in dir(_real_collections):
    if not hasattr(COLLECTIONS, _n):
        setattr(COLLECTIONS, _n, getattr(_real_collections, _n))


# =========================================================================== in-memory files, json, csv
FS = {}
WRITES = []


def fs_reset():
    FS.clear()
    del WRITES[:]


class _File:
    def __init__(self, name, mode="r", *a, **k):
        USED.add("in-memory files")
        if isinstance(name, StubPath):
            name = name.p
        if isinstance(name, SymStr):
            raise Unsupported("symbolic file name")
        self.name, self.mode = name, mode
        enc = k.get("encoding", a[1] if len(a) > 1 else None)
        if enc is not None and not isinstance(enc, str):
            raise Unsupported("symbolic file encoding")
        enc = (enc or "utf-8").lower().replace("_", "-")
        if enc not in ("utf-8", "utf8", "utf-8-sig"):
            raise Unsupported(f"file encoding {enc!r} is not modelled")
        # utf-8-sig: a reader drops one U+FEFF at the very beginning of the file, a writer would add one
        self.bom = enc == "utf-8-sig"
        if self.bom and ("w" in mode or "a" in mode):
            raise Unsupported("writing with encoding utf-8-sig is not modelled")
        if "w" in mode:
            FS[name] = []          # truncation happens at open time, as in the OS
            WRITES.append(name)
        elif name not in FS:
            raise FileNotFoundError(name)

    def __enter__(self): return self
    def __exit__(self, *a): return False
    def close(self): pass

    def write(self, x):
        FS[self.name].append(("text", x))

    def print_line(self, cells, sep, end):
        """print(*cells, sep=sep, end=end, file=self): delimiter-separated text written by hand"""
        FS[self.name].append(("line", list(cells), sep, end))

    def read(self):
        if getattr(self, "bom", False):
            raise Unsupported("read() with encoding utf-8-sig is not modelled")
        recs = FS[self.name]
        if len(recs) == 1 and recs[0][0] in ("text", "json"):
            return recs[0][1] if recs[0][0] == "text" else JsonText(recs[0][1])
        if recs and all(r[0] == "row" for r in recs):
            return FileText(self.name)
        raise Unsupported("read() of a structured in-memory file")

    def readlines(self):
        return self.read().splitlines(keepends=True)

    def __iter__(self):
        return iter(self.readlines())


# characters str.splitlines() breaks at that the csv writer does NOT quote (it quotes cells containing \r or \n)
_UNQUOTED_BREAKS = "\x0b\x0c\x1c\x1d\x1e\x85\u2028\u2029"


class FileText:
    """The text of a delimiter-separated in-memory file, as returned by read()."""

    def __init__(self, name):
        self.name = name

    def splitlines(self, keepends=False):
        """One Line per written row - unless a cell contains a character that str.splitlines() treats as a line break
        although the csv writer left it unquoted: then the row is cut and what a csv reader makes of it is unspecified."""
        out = []
        brk = z3.Concat(sc.ANYSTR, z3.Union(*[z3.Re(c) for c in _UNQUOTED_BREAKS]), sc.ANYSTR)
        for r in FS[self.name]:
            cells = list(r[1])
            cut = False
            for c in cells:
                if isinstance(c, SymStr):
                    if E().branch(z3.InRe(c.e, brk)):
                        cut = True
                elif any(ch in c for ch in _UNQUOTED_BREAKS):
                    cut = True
            if cut:
                out.append(Line([SymStr(E().fresh_str("csvcell")) for _ in cells], r))
                out.append(Line([SymStr(E().fresh_str("csvcell"))], r))
            else:
                out.append(Line(cells, r))
        return out

    def __sym_str__(self):
        raise Unsupported("text of a structured in-memory file used as a string")


class Line:
    def __init__(self, cells, rec):
        self.cells, self.rec = cells, rec


def stub_open(name, mode="r", *a, **k):
    return _File(name, mode, *a, **k)


class StubPath:
    def __init__(self, *p):
        p0 = p[0] if p else "."
        self.p = p0.p if isinstance(p0, StubPath) else p0
        for extra in p[1:]:
            self.p = self.p + "/" + (extra.p if isinstance(extra, StubPath) else extra)

    def expanduser(self): return self
    def resolve(self): return self
    def absolute(self): return self
    def as_posix(self): return self.p
    def open(self, mode="r", *a, **k): return _File(self.p, mode, *a, **k)
    def exists(self): return self.p in FS
    def is_file(self): return self.p in FS
    def __truediv__(self, o): return StubPath(self.p + "/" + (o.p if isinstance(o, StubPath) else o))
    def __fspath__(self): return self.p
    def __eq__(self, o): return isinstance(o, StubPath) and o.p == self.p
    def __hash__(self): return hash(self.p)
    def __sym_str__(self): return self.p
    def __repr__(self): return f"StubPath({self.p!r})"

    @property
    def suffix(self):
        import os
        return os.path.splitext(self.p)[1]

    @property
    def name(self):
        return self.p.rsplit("/", 1)[-1]

    def stat(self):
        """The in-memory table has no clock: two versions of a file may have the same timestamp and size (as they can on
        a real file system), so code that identifies file contents by them sees equal values."""
        if self.p not in FS:
            raise FileNotFoundError(self.p)
        return types.SimpleNamespace(st_mtime_ns=0, st_mtime=0.0, st_size=0, st_ino=0, st_ctime_ns=0)

    def write_text(self, x, *a, **k):
        FS[self.p] = []
        WRITES.append(self.p)
        FS[self.p].append(("json", x.obj) if isinstance(x, JsonText) else ("text", x))

    def read_text(self, *a, **k):
        return _File(self.p).read()


PATHLIB = _mk_module("pathlib", Path=StubPath, PurePath=StubPath, PosixPath=StubPath)


class JsonText:
    """Opaque result of json.dumps: the text of a JSON document denoting `obj`."""

    def __init__(self, obj):
        self.obj = obj


class JSONDecodeError(ValueError):
    pass


def _jsonify(o, sort_keys=False):
    """What a JSON round trip does to a value: tuples become lists, dicts keep str keys, copies."""
    if o is None or isinstance(o, (bool, int, float, str, SymStr, sc.SymBool, sc.SymInt)):
        return o
    if isinstance(o, (list, tuple)):
        return [_jsonify(x, sort_keys) for x in o]
    if isinstance(o, (dict, SymDict)):
        items = list(o.items())
        for k, _ in items:
            if not sc.is_strlike(k):
                if k is None or isinstance(k, (bool, int, float)):
                    raise Unsupported("json: non-string dict key coercion")
                raise TypeError("keys must be str, int, float, bool or None")
        if sort_keys:
            items = sorted(items, key=lambda kv: kv[0])
        return SymDict([(k, _jsonify(v, sort_keys)) for k, v in items])
    raise TypeError(f"Object of type {type(o).__name__} is not JSON serializable")


def json_dumps(obj, **kw):
    USED.add("json")
    if isinstance(obj, str):
        return _real_json.dumps(obj, **kw)
    if isinstance(obj, SymStr):     # used as text (e.g. pasted into a larger document), not read back with json.loads
        return sc.sym_json_string(obj, kw.get("ensure_ascii", True))
    return JsonText(_jsonify(obj, kw.get("sort_keys", False)))


def json_dump(obj, fp, **kw):
    USED.add("json")
    FS[fp.name].append(("json", _jsonify(obj, kw.get("sort_keys", False))))


def json_loads(s, **kw):
    USED.add("json")
    if isinstance(s, JsonText):
        return _jsonify(s.obj)
    if isinstance(s, str):
        import json
        return _to_sym(json.loads(s))
    raise Unsupported("json.loads of a symbolic string")


def _to_sym(o):
    if isinstance(o, dict):
        return SymDict([(k, _to_sym(v)) for k, v in o.items()])
    if isinstance(o, list):
        return [_to_sym(x) for x in o]
    return o


def json_load(fp, **kw):
    USED.add("json")
    recs = FS[fp.name]
    if len(recs) == 1 and recs[0][0] == "json":
        return _jsonify(recs[0][1])
    if len(recs) == 1 and recs[0][0] == "text" and isinstance(recs[0][1], str):
        return json_loads(recs[0][1])
    raise JSONDecodeError("not a JSON document")


import json as _real_json  # noqa: E402

JSON = _mk_module("json", dumps=json_dumps, dump=json_dump, loads=json_loads, load=json_load,
                  JSONDecodeError=JSONDecodeError, decoder=_real_json.decoder)


import csv as _real_csv  # noqa: E402

_NEEDS_QUOTING = None


def _needs_quoting(delim):
    return z3.Concat(sc.ANYSTR, z3.Union(z3.Re(delim), z3.Re('"'), z3.Re("\r"), z3.Re("\n")), sc.ANYSTR)


class _Reader:
    """Rows come back unchanged when the reader's dialect is the writer's.  A reader that does not unquote
    (QUOTE_NONE) over a file written with quoting returns *unspecified* content for every cell that needed quoting."""

    def __init__(self, f, delimiter=",", quoting=_real_csv.QUOTE_MINIMAL, **kw):
        USED.add("csv")
        if kw.get("quotechar", '"') != '"' or kw.get("escapechar") or kw.get("dialect", "excel") != "excel":
            raise Unsupported("csv dialect options beyond delimiter / quoting")
        self.rows = []
        if isinstance(f, (list, tuple)) and all(isinstance(x, Line) for x in f):
            for ln in f:
                wdelim = ln.rec[2] if len(ln.rec) > 2 else delimiter
                if wdelim != delimiter:
                    raise Unsupported("csv lines read with a delimiter other than the one they were written with")
                self.rows.append(list(ln.cells))
            self.i = 0
            self.line_num = 0
            return
        for r in FS[f.name]:
            if r[0] == "line":
                # a line produced without the csv module: it parses back into the same cells only if no cell needs quoting
                cells, sep, end = list(r[1]), r[2], r[3]
                if sep != delimiter or end != "\n":
                    raise Unsupported("hand-written line with another separator / line end than the reader's")
                intact = True
                for c in cells:
                    if isinstance(c, SymStr):
                        if E().branch(z3.InRe(c.e, _needs_quoting(delimiter))):
                            intact = False
                    elif any(ch in c for ch in (delimiter, '"', "\r", "\n")):
                        intact = False
                self.rows.append(cells if intact else [SymStr(E().fresh_str("csvcell")) for _ in cells])
                continue
            if r[0] != "row":
                continue
            cells, wdelim, wquoting = list(r[1]), (r[2] if len(r) > 2 else delimiter), (r[3] if len(r) > 3 else _real_csv.QUOTE_MINIMAL)
            if wdelim != delimiter:
                raise Unsupported("csv file read with a delimiter other than the one it was written with")
            if quoting == _real_csv.QUOTE_NONE and wquoting != _real_csv.QUOTE_NONE:
                out = []
                for c in cells:
                    if isinstance(c, SymStr):
                        if E().branch(z3.InRe(c.e, _needs_quoting(delimiter))):
                            c = SymStr(E().fresh_str("csvcell"))
                    elif any(ch in c for ch in (delimiter, '"', "\r", "\n")):
                        raise Unsupported("concrete cell that needs quoting read without unquoting")
                    out.append(c)
                cells = out
            self.rows.append(cells)
        if getattr(f, "bom", False) and self.rows and self.rows[0]:
            c = self.rows[0][0]     # decoded with utf-8-sig: one leading U+FEFF of the file is dropped
            if isinstance(c, SymStr):
                if E().branch(z3.PrefixOf(z3.StringVal("\ufeff"), c.e)):
                    c = SymStr(z3.SubString(c.e, 1, z3.Length(c.e) - 1))
            elif c.startswith("\ufeff"):
                c = c[1:]
            self.rows[0] = [c] + list(self.rows[0][1:])
        self.i = 0
        self.line_num = 0

    def __iter__(self): return self

    def __next__(self):
        if self.i >= len(self.rows):
            raise StopIteration
        self.i += 1
        self.line_num = self.i
        return self.rows[self.i - 1]


class _Writer:
    def __init__(self, f, delimiter=",", quoting=_real_csv.QUOTE_MINIMAL, **kw):
        USED.add("csv")
        if kw.get("quotechar", '"') != '"' or kw.get("escapechar") or kw.get("dialect", "excel") != "excel":
            raise Unsupported("csv dialect options beyond delimiter / quoting")
        if quoting == _real_csv.QUOTE_NONE:
            raise Unsupported("csv.writer with QUOTE_NONE (raises on cells that need quoting)")
        self.f, self.delimiter, self.quoting = f, delimiter, quoting

    def writerow(self, row):
        out = []
        for c in row:
            if c is None:
                c = ""
            elif not sc.is_strlike(c):
                if isinstance(c, (int, float)):
                    c = str(c)
                else:
                    raise Unsupported("csv cell of unexpected type %s" % type(c).__name__)
            out.append(c)
        FS[self.f.name].append(("row", out, self.delimiter, self.quoting))

    def writerows(self, rows):
        for r in rows:
            self.writerow(r)


CSV = _mk_module("csv", reader=_Reader, writer=_Writer, **{k: getattr(_real_csv, k) for k in dir(_real_csv) if k.startswith("QUOTE_")})


# =========================================================================== data frames (C16)
class Series:
    def __init__(self, cells):
        self.cells = list(cells)

    def map(self, func, na_action=None):
        USED.add("pandas (column model)")
        out = []
        for c in self.cells:
            if c is None and na_action == "ignore":
                out.append(None)
            else:
                out.append(func(c))
        return Series(out)

    apply = map

    def __iter__(self): return iter(self.cells)
    def __len__(self): return len(self.cells)
    def tolist(self): return list(self.cells)


class DataFrame:
    """column name -> list of cells; df[col] = Series replaces / adds a column."""

    def __init__(self, columns):
        self.cols = {k: list(v) for k, v in columns.items()}

    def __getitem__(self, k):
        if k not in self.cols:
            raise KeyError(k)
        return Series(self.cols[k])

    def __setitem__(self, k, v):
        cells = list(v.cells) if isinstance(v, Series) else list(v)
        n = len(next(iter(self.cols.values()))) if self.cols else len(cells)
        if len(cells) != n:
            raise ValueError("Length of values does not match length of index")
        self.cols[k] = cells


# =========================================================================== web frameworks (C17)
class HTTPAbort(Exception):
    def __init__(self, status_code, detail=None):
        self.status_code = status_code
        self.detail = detail


class Redirect:
    def __init__(self, location, status_code=302):
        self.location = location
        self.status_code = status_code


class Blueprint:
    def __init__(self, name=None, import_name=None, **kw):
        USED.add("flask (route recorder)")
        self.routes = []
        self.kw = kw

    def route(self, rule, **opts):
        def deco(fn):
            self.routes.append((rule, fn, opts))
            return fn
        return deco

    def get(self, rule, **opts):
        return self.route(rule, methods=["GET"], **opts)


def flask_abort(code, *a, **k):
    raise HTTPAbort(code, a[0] if a else None)


def flask_redirect(location, code=302, **k):
    return Redirect(location, code)


FLASK = _mk_module("flask", Blueprint=Blueprint, abort=flask_abort, redirect=flask_redirect, Flask=_Anything(),
                   Response=_Anything(), request=_Anything())


class APIRouter:
    def __init__(self, **kw):
        USED.add("fastapi (route recorder)")
        self.routes = []
        self.kw = kw

    def get(self, rule, **opts):
        def deco(fn):
            self.routes.append((rule, fn, dict(opts, methods=["GET"])))
            return fn
        return deco

    def post(self, rule, **opts):
        def deco(fn):
            self.routes.append((rule, fn, dict(opts, methods=["POST"])))
            return fn
        return deco

    api_route = get


class _Param:
    def __init__(self, *a, **k):
        self.a, self.k = a, k


FASTAPI = _mk_module("fastapi", APIRouter=APIRouter, HTTPException=HTTPAbort, Path=_Param, Query=_Param, Form=_Param,
                     Header=_Param, Response=_Anything(), FastAPI=_Anything())
FASTAPI_RESPONSES = _mk_module("fastapi.responses", RedirectResponse=Redirect)
FASTAPI.responses = FASTAPI_RESPONSES


# =========================================================================== rdflib (C18)
class Graph:
    def __init__(self, *a, **k):
        USED.add("rdflib (URIRef = str, Graph base)")


class URIRef(str):
    """rdflib.URIRef: a str subclass; for a symbolic string the proxy itself stands for the URIRef."""

    def __new__(cls, s="", *a):
        if isinstance(s, SymStr):
            return s
        return str.__new__(cls, s)


class _OWL:
    sameAs = "http://www.w3.org/2002/07/owl#sameAs"


def _real_is_valid_uri():
    from rdflib.term import _is_valid_uri
    return _is_valid_uri


RDFLIB = _mk_module("rdflib", Graph=Graph, URIRef=URIRef, OWL=_OWL)
RDFLIB_TERM = _mk_module("rdflib.term", URIRef=URIRef)


class CompValue(dict):
    """rdflib.plugins.sparql.parserutils.CompValue as far as curies' own code uses it: a named node whose children are
    reachable as attributes, with update() and values() of the underlying ordered mapping."""

    def __init__(self, name, **values):
        USED.add("rdflib.CompValue")
        dict.__init__(self)
        object.__setattr__(self, "name", name)
        dict.update(self, values)

    def __getattr__(self, a):
        if a in ("__deepcopy__",):
            raise AttributeError(a)
        try:
            return self[a]
        except KeyError:
            raise AttributeError(a) from None

    def __setattr__(self, a, v):
        self[a] = v

    __hash__ = object.__hash__

    def __eq__(self, o):
        return self is o


def _sparql_unmodelled(*a, **k):
    raise Unsupported("rdflib SPARQL parsing / evaluation is not modelled")


class _SPARQLProcessor:
    def __init__(self, graph):
        self.graph = graph


SPARQL_STUBS = {
    "rdflib.plugins.sparql.algebra": _mk_module("rdflib.plugins.sparql.algebra", translateQuery=_sparql_unmodelled),
    "rdflib.plugins.sparql.evaluate": _mk_module("rdflib.plugins.sparql.evaluate", evalQuery=_sparql_unmodelled),
    "rdflib.plugins.sparql.parser": _mk_module("rdflib.plugins.sparql.parser", parseQuery=_sparql_unmodelled),
    "rdflib.plugins.sparql.parserutils": _mk_module("rdflib.plugins.sparql.parserutils", CompValue=CompValue),
    "rdflib.plugins.sparql.processor": _mk_module("rdflib.plugins.sparql.processor", SPARQLProcessor=_SPARQLProcessor),
    "rdflib.plugins.sparql.sparql": _mk_module("rdflib.plugins.sparql.sparql", Query=type("Query", (), {})),
}


def _rdflib_term_getattr(name):
    if name == "_is_valid_uri":
        return _real_is_valid_uri()
    raise AttributeError(name)


RDFLIB_TERM.__getattr__ = _rdflib_term_getattr


# ------------------------------------------------------------------------------- functools
import functools as _real_functools  # noqa: E402


def _key_eq(a, b):
    """Equality of two memo keys as functools sees it (== and hash), decided symbolically for proxies."""
    from .core import is_strlike, sym_eq
    if isinstance(a, tuple) and isinstance(b, tuple):
        return len(a) == len(b) and all(_key_eq(x, y) for x, y in zip(a, b))
    if is_strlike(a) or is_strlike(b):
        return is_strlike(a) and is_strlike(b) and bool(sym_eq(a, b))
    return bool(a == b)


def sym_lru_cache(maxsize=128, typed=False):
    """functools.lru_cache with its real semantics (least-recently-used eviction, exceptions are not remembered,
    cache_clear), the key comparison being a symbolic equality.  Tables of module-level functions are emptied at the
    start of every explored path."""
    if callable(maxsize) and not isinstance(maxsize, int):
        return sym_lru_cache(128)(maxsize)

    def deco(fn):
        USED.add("functools.lru_cache")
        memo = []       # [(key, result)], least recently used first

        def wrapper(*a, **k):
            key = (tuple(a), tuple(sorted(k.items())))
            for idx in range(len(memo)):
                if _key_eq(memo[idx][0], key):
                    memo.append(memo.pop(idx))
                    return memo[-1][1]
            res = fn(*a, **k)
            if maxsize is None or maxsize > 0:
                memo.append((key, res))
                if maxsize is not None and len(memo) > maxsize:
                    memo.pop(0)
            return res
        wrapper.cache_clear = memo.clear
        wrapper.cache_info = lambda: (0, 0, maxsize, len(memo))
        wrapper.cache_parameters = lambda: dict(maxsize=maxsize, typed=typed)
        wrapper.__wrapped__ = fn
        wrapper.__name__ = getattr(fn, "__name__", "cached")
        wrapper.__doc__ = getattr(fn, "__doc__", None)
        if isinstance(fn, types.FunctionType) and "<locals>" not in fn.__qualname__:
            from .core import PATH_RESET    # a table that outlives the harness run (module- or class-level function)
            PATH_RESET.append(memo.clear)
        return wrapper
    return deco


FUNCTOOLS = _mk_module("functools", lru_cache=sym_lru_cache, cache=sym_lru_cache(None))
for _n in dir(_real_functools):
    if not hasattr(FUNCTOOLS, _n):
        setattr(FUNCTOOLS, _n, getattr(_real_functools, _n))


STUBS = {
    **SPARQL_STUBS,
    "functools": FUNCTOOLS,
    "csv": CSV, "pathlib": PATHLIB, "json": JSON, "json.decoder": JSON, "pydantic": PYDANTIC,
    "pydantic_core": PYDANTIC_CORE, "pytrie": PYTRIE, "collections": COLLECTIONS, "flask": FLASK, "fastapi": FASTAPI,
    "fastapi.responses": FASTAPI_RESPONSES, "rdflib": RDFLIB, "rdflib.term": RDFLIB_TERM,
}
