"""Adapters from the *real* routing libraries' compiled patterns to regular constraints (C17).

The rule strings curies builds are handed to the real werkzeug.routing.Rule / Map and to the real
starlette.routing.compile_path; what they compile is parsed with CPython's re._parser and translated with
rx.tr.  Only the shape  <group 1> <literal delimiter> <group 2>  (possibly spread over werkzeug's
'/'-separated parts) is supported; anything else raises Unsupported.
"""
from __future__ import annotations

import re._constants as sc_
import re._parser as sp

import z3

from . import rx
from .core import ANYSTR, Unsupported


class Route:
    """lang: z3 regex of the whole request paths the route matches.
    g1, lit, g2: regexes / literal such that a matching path is '/' g1 lit g2, group 1 greedy.
    g1_class_star: regex X with  p ++ lit ++ x in g1  <=>  x in X  for p in g1 (used for the greedy rule)."""

    def __init__(self, g1, lit, g2, greedy1):
        self.g1, self.lit, self.g2, self.greedy1 = g1, lit, g2, greedy1
        self.lang = z3.Concat(z3.Re("/"), g1, z3.Re(lit), g2)

    def capture_constraints(self, p, i):
        """z3 constraints saying that (p, i) are the groups captured for the path '/' p lit i."""
        cons = [z3.InRe(p, self.g1), z3.InRe(i, self.g2)]
        if self.greedy1 is not None:
            # greedy group 1: no later occurrence of the literal also yields a match
            cons.append(z3.Not(z3.InRe(i, z3.Concat(self.greedy1, z3.Re(self.lit), self.g2))))
        return cons


def _split_groups(seq):
    """sre sequence -> (leading literal text, [group subsequences], [literal texts between/after])"""
    lead, groups, lits, cur = "", [], [], ""
    for op, av in seq:
        if op == sc_.AT:
            continue
        if op == sc_.LITERAL:
            cur += chr(av)
        elif op == sc_.SUBPATTERN:
            if not groups:
                lead = cur
            else:
                lits.append(cur)
            cur = ""
            groups.append(av[3])
        else:
            raise Unsupported(f"route pattern construct {op}")
    lits.append(cur)
    return lead, groups, lits


def _class_plus(sub):
    """If the group is C+ / C{1,} for a character class C return z3 regex C*, else None."""
    sub = list(sub)
    if len(sub) == 1 and sub[0][0] in (sc_.MAX_REPEAT,) and sub[0][1][1] == sc_.MAXREPEAT:
        inner = list(sub[0][1][2])
        if len(inner) == 1 and inner[0][0] in (sc_.IN, sc_.NOT_LITERAL, sc_.LITERAL, sc_.ANY):
            return z3.Star(rx.tr(inner))
    return None


def _anchored_end(pattern):
    seq = list(sp.parse(pattern))
    return bool(seq) and seq[-1][0] == sc_.AT


def from_starlette(rule: str) -> Route:
    from starlette.routing import compile_path
    regex, _, _ = compile_path(rule)
    seq = list(sp.parse(regex.pattern))
    lead, groups, lits = _split_groups(seq)
    if lead != "/" or len(groups) != 2 or len(lits) != 2 or not lits[0] or lits[1] or not _anchored_end(regex.pattern):
        raise Unsupported(f"starlette route shape not supported: {regex.pattern}")
    g1, g2 = rx.tr(groups[0]), rx.tr(groups[1])
    star = _class_plus(groups[0])
    if star is None:
        raise Unsupported(f"starlette route: first group is not a character class repetition: {regex.pattern}")
    return Route(g1, lits[0], g2, star)


def from_werkzeug(rule: str) -> Route:
    from werkzeug.routing import Map, Rule
    m = Map([Rule(rule, endpoint="x")])
    r = next(iter(m.iter_rules()))
    parts = [p for p in r._parts if not (p.static and p.content == "")]
    if not r._parts or any(p.static and p.content != "" for p in r._parts):
        raise Unsupported(f"werkzeug rule with static segments: {[(p.content, p.static) for p in r._parts]}")
    if len(parts) == 1 and parts[0].final:
        lead, groups, lits = _split_groups(list(sp.parse(parts[0].content)))
        if lead or len(groups) != 2 or not lits[0] or lits[1]:
            raise Unsupported(f"werkzeug part shape not supported: {parts[0].content}")
        star = _class_plus(groups[0])
        if star is None:
            raise Unsupported(f"werkzeug part: first group is not a character class repetition: {parts[0].content}")
        return Route(rx.tr(groups[0]), lits[0], rx.tr(groups[1]), star)
    if len(parts) == 2 and not parts[0].final and parts[1].final:
        # '/'-delimited rule: one segment for group 1, the remaining path for group 2
        l1, gs1, t1 = _split_groups(list(sp.parse(parts[0].content)))
        l2, gs2, t2 = _split_groups(list(sp.parse(parts[1].content)))
        if l1 or l2 or len(gs1) != 1 or len(gs2) != 1 or t1 != [""] or t2 != [""]:
            raise Unsupported("werkzeug two-part rule shape not supported")
        noslash = z3.Star(rx.tr([(sc_.NOT_LITERAL, ord("/"))]))
        return Route(z3.Intersect(rx.tr(gs1[0]), noslash), "/", rx.tr(gs2[0]), None)
    raise Unsupported(f"werkzeug rule shape not supported: {[(p.content, p.final) for p in r._parts]}")
